/-
Lemmas for the function-level model of `create_variant_graph` (`Model/Tvg.lean`):
the PARTITION INVARIANT, by induction over the graph operations.

`Inv t s`: in the graph `s` over the transcript `t`
  * every reference node of frame `f` is a non-empty stretch `[a, b)` with `f ≤ a < b ≤ |t|` whose
    sequence is the transcript slice, every position `p ∈ [f, |t|)` lies in exactly one reference
    node of frame `f` (`cover` + `disjoint`: the reference nodes of a frame tile `[f, |t|)`),
  * every edge agrees with the positions (`edgeOk`): a `reference` edge joins the reference node
    ending at `b` to the one starting at `b` in the same frame (or a root to its child), a
    `variant_start` edge leaves the reference node ENDING at `start v` of the variant node's
    frame, a `variant_end` edge enters a reference node STARTING at `stop v`,
  * consecutive reference nodes of a frame are joined by a `reference` edge (`refLinked`), and a
    reference node has at most one `reference` out-edge and at most one `reference` in-edge
    (`outRef`, `inRef`: `get_reference_next` / `get_reference_prev` never depend on the iteration
    order of the edge sets).
`VarLinked t s`: every variant node has its `variant_start` in-edge and — unless the record
reaches the end of the transcript — its `variant_end` out-edge.
-/
import MoPepGen.Model.Tvg
import MoPepGen.Lemmas.Graph
namespace MoPepGen.Tvg
open MoPepGen MoPepGen.Spec

/-! ### `Except` -/

theorem tvg_bind_ok {α β : Type} {e : R α} {f : α → R β} {r : β} :
    (e >>= f) = .ok r ↔ ∃ x, e = .ok x ∧ f x = .ok r := by
  cases e with
  | error m => simp [bind, Except.bind]
  | ok x => simp [bind, Except.bind]

/-! ### predicates on nodes -/

/-- node `i` is the reference stretch `[a, b)` of frame `f` -/
def IsRef (s : TState) (i f a b : Nat) : Prop := ∃ sq, s.nodes[i]? = some ⟨f, .ref a b, sq⟩

/-- node `i` is the variant node of record `v`, created in frame `f` -/
def IsVar (s : TState) (i f : Nat) (v : Rec) : Prop := ∃ sq, s.nodes[i]? = some ⟨f, .var v, sq⟩

/-- node `i` is a null node (`seq = None`) with `reading_frame_index = f` (3 = `None`) -/
def IsNull (s : TState) (i f : Nat) : Prop := ∃ sq, s.nodes[i]? = some ⟨f, .root, sq⟩

/-- well-formedness of one node over the transcript `t` -/
def NodeOk (t : List Char) (n : TNode) : Prop :=
  match n.kind with
  | .root => True
  | .ref a b => n.rf < 3 ∧ n.rf ≤ a ∧ a < b ∧ b ≤ t.length ∧ n.seq = (t.drop a).take (b - a)
  | .var v => n.rf < 3 ∧ n.seq = v.alt ∧ n.rf < v.start ∧ v.start < v.stop ∧ v.stop ≤ t.length

/-- an edge agrees with the positions of its end nodes -/
def EdgeOk (s : TState) (e : TEdge) : Prop :=
  match e.ty with
  | .reference =>
    (∃ f a b c, IsRef s e.src f a b ∧ IsRef s e.dst f b c) ∨
    (∃ f b, f < 3 ∧ IsNull s e.src f ∧ IsRef s e.dst f f b) ∨
    (∃ f, f < 3 ∧ IsNull s e.src 3 ∧ IsNull s e.dst f)
  | .variantStart => ∃ f a b v, IsRef s e.src f a b ∧ IsVar s e.dst f v ∧ b = v.start
  | .variantEnd => ∃ f v g c d, IsVar s e.src f v ∧ IsRef s e.dst g c d ∧ c = v.stop

/-- number of `reference` out-edges of node `i` -/
def outRefCount (s : TState) (i : Nat) : Nat :=
  (s.edges.filter fun e => e.src == i && e.ty == .reference).length

/-- number of `reference` in-edges of node `i` -/
def inRefCount (s : TState) (i : Nat) : Nat :=
  (s.edges.filter fun e => e.dst == i && e.ty == .reference).length

/-- the partition invariant -/
structure Inv (t : List Char) (s : TState) : Prop where
  nodesOk : ∀ (i : Nat) (n : TNode), s.nodes[i]? = some n → NodeOk t n
  cover : ∀ (f p : Nat), f < 3 → f ≤ p → p < t.length → ∃ i a b, IsRef s i f a b ∧ a ≤ p ∧ p < b
  disjoint : ∀ (i j f a b a' b' : Nat), IsRef s i f a b → IsRef s j f a' b' → a < b' → a' < b → i = j
  edgesIn : ∀ e ∈ s.edges, e.src < s.nodes.length ∧ e.dst < s.nodes.length
  edgeOk : ∀ e ∈ s.edges, EdgeOk s e
  refLinked : ∀ (i j f a b c : Nat), IsRef s i f a b → IsRef s j f b c → ⟨i, j, .reference⟩ ∈ s.edges
  /-- a reference node has at most one `reference` out-edge (as a multiset: no duplicates) … -/
  outRef : ∀ (i f a b : Nat), IsRef s i f a b → outRefCount s i ≤ 1
  /-- … and at most one `reference` in-edge -/
  inRef : ∀ (i f a b : Nat), IsRef s i f a b → inRefCount s i ≤ 1

/-- variant node `k` has a `variant_start` in-edge -/
def StartLinked (s : TState) (k : Nat) : Prop := ∃ e ∈ s.edges, e.dst = k ∧ e.ty = .variantStart

/-- variant node `k` has a `variant_end` out-edge -/
def EndLinked (s : TState) (k : Nat) : Prop := ∃ e ∈ s.edges, e.src = k ∧ e.ty = .variantEnd

/-- every variant node except `x` hangs between its two reference nodes -/
def VarLinkedExcept (t : List Char) (s : TState) (x : Option Nat) : Prop :=
  ∀ k f v, IsVar s k f v → some k ≠ x →
    StartLinked s k ∧ (v.stop < t.length → EndLinked s k)

/-- every variant node hangs between its two reference nodes -/
def VarLinked (t : List Char) (s : TState) : Prop := VarLinkedExcept t s none

/-! ### elementary facts -/

theorem IsRef.lt {s : TState} {i f a b : Nat} (h : IsRef s i f a b) : i < s.nodes.length := by
  obtain ⟨sq, h⟩ := h
  exact (List.getElem?_eq_some_iff.mp h).1

theorem IsVar.lt {s : TState} {i f : Nat} {v : Rec} (h : IsVar s i f v) : i < s.nodes.length := by
  obtain ⟨sq, h⟩ := h
  exact (List.getElem?_eq_some_iff.mp h).1

theorem IsRef.not_var {s : TState} {i f a b g : Nat} {v : Rec} (h : IsRef s i f a b)
    (h' : IsVar s i g v) : False := by
  obtain ⟨sq, h⟩ := h; obtain ⟨sq', h'⟩ := h'
  rw [h] at h'; cases h'

theorem IsRef.not_null {s : TState} {i f a b g : Nat} (h : IsRef s i f a b)
    (h' : IsNull s i g) : False := by
  obtain ⟨sq, h⟩ := h; obtain ⟨sq', h'⟩ := h'
  rw [h] at h'; cases h'

theorem IsVar.not_null {s : TState} {i f g : Nat} {v : Rec} (h : IsVar s i f v)
    (h' : IsNull s i g) : False := by
  obtain ⟨sq, h⟩ := h; obtain ⟨sq', h'⟩ := h'
  rw [h] at h'; cases h'

theorem IsRef.inj {s : TState} {i f a b f' a' b' : Nat} (h : IsRef s i f a b)
    (h' : IsRef s i f' a' b') : f = f' ∧ a = a' ∧ b = b' := by
  obtain ⟨sq, h⟩ := h; obtain ⟨sq', h'⟩ := h'
  rw [h] at h'; cases h'; exact ⟨rfl, rfl, rfl⟩

theorem IsVar.inj {s : TState} {i f f' : Nat} {v v' : Rec} (h : IsVar s i f v)
    (h' : IsVar s i f' v') : f = f' ∧ v = v' := by
  obtain ⟨sq, h⟩ := h; obtain ⟨sq', h'⟩ := h'
  rw [h] at h'; cases h'; exact ⟨rfl, rfl⟩

theorem Inv.ref_ok {t : List Char} {s : TState} (hI : Inv t s) {i f a b : Nat}
    (h : IsRef s i f a b) : f < 3 ∧ f ≤ a ∧ a < b ∧ b ≤ t.length := by
  obtain ⟨sq, h⟩ := h
  have := hI.nodesOk i _ h
  simp only [NodeOk] at this
  exact ⟨this.1, this.2.1, this.2.2.1, this.2.2.2.1⟩

theorem Inv.var_ok {t : List Char} {s : TState} (hI : Inv t s) {i f : Nat} {v : Rec}
    (h : IsVar s i f v) : f < 3 ∧ f < v.start ∧ v.start < v.stop ∧ v.stop ≤ t.length := by
  obtain ⟨sq, h⟩ := h
  have := hI.nodesOk i _ h
  simp only [NodeOk] at this
  exact ⟨this.1, this.2.2.1, this.2.2.2.1, this.2.2.2.2⟩

/-- the reference node that follows `[a, b)` in its frame starts exactly at `b` -/
theorem Inv.next_ref {t : List Char} {s : TState} (hI : Inv t s) {i f a b : Nat}
    (h : IsRef s i f a b) (hb : b < t.length) : ∃ j c, IsRef s j f b c := by
  obtain ⟨hf, hfa, hab, _⟩ := hI.ref_ok h
  obtain ⟨j, a', b', hj, h1, h2⟩ := hI.cover f b hf (by omega) hb
  rcases Nat.lt_or_ge a' b with hlt | hge
  · have := hI.disjoint i j f a b a' b' h hj (by omega) hlt
    subst this
    obtain ⟨_, _, rfl⟩ := h.inj hj
    omega
  · have : a' = b := by omega
    subst this
    exact ⟨j, b', hj⟩

/-! ### `spliceAt`: what the nodes and edges are afterwards -/

theorem spliceAt_nodes_length (s : TState) (n : Nat) (nd : TNode) (a b k : Nat) (ty : EType) :
    (spliceAt s n nd a b k ty).nodes.length = s.nodes.length + 1 := by
  simp [spliceAt]

theorem spliceAt_node {s : TState} {n : Nat} {nd : TNode} (a b k : Nat) (ty : EType)
    (hn : s.nodes[n]? = some nd) (i : Nat) :
    (spliceAt s n nd a b k ty).nodes[i]? =
      if i = n then some { nd with kind := .ref a (a + k), seq := nd.seq.take k }
      else if i = s.nodes.length then
        some { rf := nd.rf, kind := .ref (a + k) b, seq := nd.seq.drop k }
      else s.nodes[i]? := by
  have hlt : n < s.nodes.length := (List.getElem?_eq_some_iff.mp hn).1
  simp only [spliceAt]
  by_cases h1 : i = n
  · subst h1
    simp [List.getElem?_append_left, hlt]
  · simp only [h1, if_false]
    by_cases h2 : i = s.nodes.length
    · subst h2
      simp [List.getElem?_append_right]
    · simp only [h2, if_false]
      rcases Nat.lt_or_ge i s.nodes.length with h3 | h3
      · rw [List.getElem?_append_left (by simpa using h3)]
        rw [List.getElem?_set_ne (by omega)]
      · rw [List.getElem?_eq_none (by simp; omega), List.getElem?_eq_none h3]

theorem spliceAt_mem_edges {s : TState} {n : Nat} {nd : TNode} {a b k : Nat} {ty : EType}
    {e' : TEdge} :
    e' ∈ (spliceAt s n nd a b k ty).edges ↔
      (∃ e ∈ s.edges, e' = if e.src == n then { e with src := s.nodes.length } else e) ∨
        e' = ⟨n, s.nodes.length, ty⟩ := by
  simp only [spliceAt, List.mem_append, List.mem_map, List.mem_singleton]
  constructor
  · rintro (⟨e, he, rfl⟩ | h)
    · exact Or.inl ⟨e, he, rfl⟩
    · exact Or.inr h
  · rintro (⟨e, he, rfl⟩ | h)
    · exact Or.inl ⟨e, he, rfl⟩
    · exact Or.inr h

theorem spliceAt_isRef {s : TState} {n rf a b : Nat} {sq : List Char} (k : Nat) (ty : EType)
    (hn : s.nodes[n]? = some ⟨rf, .ref a b, sq⟩) {i f x y : Nat} :
    IsRef (spliceAt s n ⟨rf, .ref a b, sq⟩ a b k ty) i f x y ↔
      (n = i ∧ rf = f ∧ a = x ∧ a + k = y) ∨
      (s.nodes.length = i ∧ rf = f ∧ a + k = x ∧ b = y) ∨
      (i ≠ n ∧ i ≠ s.nodes.length ∧ IsRef s i f x y) := by
  have hlt : n < s.nodes.length := (List.getElem?_eq_some_iff.mp hn).1
  simp only [IsRef, spliceAt_node a b k ty hn]
  by_cases h1 : i = n
  · subst h1
    have : i ≠ s.nodes.length := by omega
    have this' : s.nodes.length ≠ i := by omega
    simp only [if_true, Option.some.injEq, TNode.mk.injEq, NKind.ref.injEq, true_and,
      ne_eq, not_true_eq_false, false_and, or_false, this', false_and]
    constructor
    · rintro ⟨sq, h1, ⟨h2, h3⟩, _⟩
      exact ⟨h1, h2, h3⟩
    · rintro ⟨rfl, rfl, rfl⟩
      exact ⟨_, rfl, ⟨rfl, rfl⟩, rfl⟩
  · by_cases h2 : i = s.nodes.length
    · subst h2
      have h1' : ¬ n = s.nodes.length := fun h => h1 h.symm
      simp only [h1, h1', if_false, if_true, Option.some.injEq, TNode.mk.injEq, NKind.ref.injEq,
        true_and, ne_eq, not_true_eq_false, false_and, and_false, or_false, false_or]
      constructor
      · rintro ⟨sq, h1, ⟨h2, h3⟩, _⟩
        exact ⟨h1, h2, h3⟩
      · rintro ⟨rfl, rfl, rfl⟩
        exact ⟨_, rfl, ⟨rfl, rfl⟩, rfl⟩
    · have h1' : ¬ n = i := fun h => h1 h.symm
      have h2' : ¬ s.nodes.length = i := fun h => h2 h.symm
      simp [h1, h2, h1', h2']

theorem spliceAt_isVar {s : TState} {n : Nat} {nd : TNode} {a b : Nat} (k : Nat) (ty : EType)
    (hn : s.nodes[n]? = some nd) (hk : nd.kind = .ref a b) {i f : Nat} {v : Rec} :
    IsVar (spliceAt s n nd a b k ty) i f v ↔ IsVar s i f v := by
  have hlt : n < s.nodes.length := (List.getElem?_eq_some_iff.mp hn).1
  simp only [IsVar, spliceAt_node a b k ty hn]
  by_cases h1 : i = n
  · subst h1
    simp only [if_true, Option.some.injEq, TNode.mk.injEq, reduceCtorEq, false_and, and_false,
      exists_false, false_iff, not_exists]
    intro sq h
    rw [hn] at h
    cases h
    simp at hk
  · by_cases h2 : i = s.nodes.length
    · subst h2
      simp [h1]
    · simp [h1, h2]

theorem spliceAt_isNull {s : TState} {n : Nat} {nd : TNode} {a b : Nat} (k : Nat) (ty : EType)
    (hn : s.nodes[n]? = some nd) (hk : nd.kind = .ref a b) {i f : Nat} :
    IsNull (spliceAt s n nd a b k ty) i f ↔ IsNull s i f := by
  have hlt : n < s.nodes.length := (List.getElem?_eq_some_iff.mp hn).1
  simp only [IsNull, spliceAt_node a b k ty hn]
  by_cases h1 : i = n
  · subst h1
    simp only [if_true, Option.some.injEq, TNode.mk.injEq, reduceCtorEq, false_and, and_false,
      exists_false, false_iff, not_exists]
    intro sq h
    rw [hn] at h
    cases h
    simp at hk
  · by_cases h2 : i = s.nodes.length
    · subst h2
      simp [h1]
    · simp [h1, h2]

/-! ### `splice` preserves the invariant -/

theorem tvg_take_slice (t : List Char) (a b k : Nat) (hk : k ≤ b - a) :
    ((t.drop a).take (b - a)).take k = (t.drop a).take (a + k - a) := by
  rw [List.take_take, Nat.min_eq_left hk]
  congr 1; omega

theorem tvg_drop_slice (t : List Char) (a b k : Nat) :
    ((t.drop a).take (b - a)).drop k = (t.drop (a + k)).take (b - (a + k)) := by
  rw [List.drop_take, List.drop_drop]
  congr 1; omega

/-- `reference` out-edges after the renaming of `splice` (sources `n ↦ r`, `r` fresh) -/
theorem tvg_outCount_rename (L : List TEdge) (n r i : Nat) (hnr : n ≠ r) (hr : ∀ e ∈ L, e.src ≠ r) :
    ((L.map fun e => if e.src == n then { e with src := r } else e).filter
        fun e => e.src == i && e.ty == .reference).length =
      if i = n then 0
      else if i = r then (L.filter fun e => e.src == n && e.ty == .reference).length
      else (L.filter fun e => e.src == i && e.ty == .reference).length := by
  rw [List.filter_map, List.length_map]
  by_cases h1 : i = n
  · subst h1
    simp only [if_true, List.length_eq_zero_iff, List.filter_eq_nil_iff, Function.comp]
    intro e _
    by_cases h : e.src = i
    · simp [h, hnr.symm]
    · simp [h]
  · simp only [h1, if_false]
    by_cases h2 : i = r
    · subst h2
      simp only [if_true]
      congr 1
      apply List.filter_congr
      intro e he
      have := hr e he
      simp only [Function.comp]
      by_cases h : e.src = n
      · simp [h]
      · have a1 : (e.src == i) = false := by simpa using this
        have a2 : (e.src == n) = false := by simpa using h
        simp [a1, a2]
    · simp only [h2, if_false]
      congr 1
      apply List.filter_congr
      intro e _
      simp only [Function.comp]
      by_cases h : e.src = n
      · have a1 : (r == i) = false := by simpa using fun h' : r = i => h2 h'.symm
        have a2 : (n == i) = false := by simpa using fun h' : n = i => h1 h'.symm
        simp [h, a1, a2]
      · simp [h]

/-- `reference` in-edges are not affected by the renaming of `splice` -/
theorem tvg_inCount_rename (L : List TEdge) (n r j : Nat) :
    ((L.map fun e => if e.src == n then { e with src := r } else e).filter
        fun e => e.dst == j && e.ty == .reference).length =
      (L.filter fun e => e.dst == j && e.ty == .reference).length := by
  rw [List.filter_map, List.length_map]
  congr 1
  apply List.filter_congr
  intro e _
  simp only [Function.comp]
  split <;> rfl

/-- splitting the reference node `n = [a, b)` strictly inside keeps the invariant -/
theorem inv_spliceAt {t : List Char} {s : TState} (hI : Inv t s) {n rf a b k : Nat} {sq : List Char}
    (hn : s.nodes[n]? = some ⟨rf, .ref a b, sq⟩) (hk0 : 0 < k) (hkb : k < b - a) :
    Inv t (spliceAt s n ⟨rf, .ref a b, sq⟩ a b k .reference) := by
  have hlt : n < s.nodes.length := (List.getElem?_eq_some_iff.mp hn).1
  have hnref : IsRef s n rf a b := ⟨sq, hn⟩
  have hok := hI.nodesOk n _ hn
  simp only [NodeOk] at hok
  obtain ⟨hrf, hrfa, hab, hbL, hsq⟩ := hok
  have hR := @spliceAt_isRef s n rf a b sq k .reference hn
  have hV := @spliceAt_isVar s n ⟨rf, .ref a b, sq⟩ a b k .reference hn rfl
  have hN := @spliceAt_isNull s n ⟨rf, .ref a b, sq⟩ a b k .reference hn rfl
  -- an old reference node other than `n` is still there
  have keep : ∀ {i f x y : Nat}, i ≠ n → IsRef s i f x y →
      IsRef (spliceAt s n ⟨rf, .ref a b, sq⟩ a b k .reference) i f x y := by
    intro i f x y h1 h2
    exact hR.mpr (Or.inr (Or.inr ⟨h1, Nat.ne_of_lt h2.lt, h2⟩))
  have hleft : IsRef (spliceAt s n ⟨rf, .ref a b, sq⟩ a b k .reference) n rf a (a + k) :=
    hR.mpr (Or.inl ⟨rfl, rfl, rfl, rfl⟩)
  have hright : IsRef (spliceAt s n ⟨rf, .ref a b, sq⟩ a b k .reference) s.nodes.length rf (a + k) b :=
    hR.mpr (Or.inr (Or.inl ⟨rfl, rfl, rfl, rfl⟩))
  have hfresh : ∀ e ∈ s.edges, e.src ≠ s.nodes.length ∧ e.dst ≠ s.nodes.length := by
    intro e he
    have := hI.edgesIn e he
    omega
  refine ⟨?_, ?_, ?_, ?_, ?_, ?_, ?_, ?_⟩
  · -- nodesOk
    intro i n' h
    rw [spliceAt_node a b k .reference hn] at h
    split at h
    · cases h
      simp only [NodeOk]
      refine ⟨hrf, hrfa, by omega, by omega, ?_⟩
      rw [hsq]; exact tvg_take_slice t a b k (by omega)
    · split at h
      · cases h
        simp only [NodeOk]
        refine ⟨hrf, by omega, by omega, hbL, ?_⟩
        rw [hsq]; exact tvg_drop_slice t a b k
      · exact hI.nodesOk i n' h
  · -- cover
    intro f p hf hfp hp
    obtain ⟨i, a', b', hi, h1, h2⟩ := hI.cover f p hf hfp hp
    by_cases hin : i = n
    · rw [hin] at hi
      obtain ⟨e1, e2, e3⟩ := hnref.inj hi
      subst e1 e2 e3
      rcases Nat.lt_or_ge p (a + k) with h | h
      · exact ⟨n, a, a + k, hleft, h1, h⟩
      · exact ⟨s.nodes.length, a + k, b, hright, h, h2⟩
    · exact ⟨i, a', b', keep hin hi, h1, h2⟩
  · -- disjoint
    intro i j f x y x' y' hi hj h1 h2
    rcases hR.mp hi with ⟨rfl, rfl, rfl, rfl⟩ | ⟨rfl, rfl, rfl, rfl⟩ | ⟨hi1, hi2, hi3⟩ <;>
    rcases hR.mp hj with ⟨rfl, hf', rfl, rfl⟩ | ⟨rfl, hf', rfl, rfl⟩ | ⟨hj1, hj2, hj3⟩
    · rfl
    · omega
    · exact absurd (hI.disjoint _ _ _ _ _ _ _ hnref hj3 (by omega) (by omega)).symm hj1
    · omega
    · rfl
    · exact absurd (hI.disjoint _ _ _ _ _ _ _ hnref hj3 (by omega) (by omega)).symm hj1
    · subst hf'
      exact absurd (hI.disjoint _ _ _ _ _ _ _ hi3 hnref (by omega) (by omega)) hi1
    · subst hf'
      exact absurd (hI.disjoint _ _ _ _ _ _ _ hi3 hnref (by omega) (by omega)) hi1
    · exact hI.disjoint _ _ _ _ _ _ _ hi3 hj3 h1 h2
  · -- edgesIn
    intro e' he'
    rw [spliceAt_nodes_length]
    rcases spliceAt_mem_edges.mp he' with ⟨e, he, rfl⟩ | rfl
    · have := hI.edgesIn e he
      split <;> (try simp) <;> omega
    · simp; omega
  · -- edgeOk
    intro e' he'
    rcases spliceAt_mem_edges.mp he' with ⟨e, he, rfl⟩ | rfl
    · have hin := hI.edgesIn e he
      have hok := hI.edgeOk e he
      obtain ⟨src, dst, ety⟩ := e
      by_cases hsrc : src = n
      · -- the edge left `n`: it now leaves the new right node
        subst hsrc
        simp only [beq_self_eq_true, if_true]
        cases ety with
        | reference =>
          simp only [EdgeOk] at hok ⊢
          rcases hok with ⟨f, x, y, z, h1, h2⟩ | ⟨f, y, _, h1, _⟩ | ⟨f, _, h1, _⟩
          · obtain ⟨rfl, rfl, rfl⟩ := hnref.inj h1
            have hd : dst ≠ src := by
              intro h; rw [h] at h2
              have := (hnref.inj h2).2.1; omega
            exact Or.inl ⟨rf, a + k, b, z, hright, keep hd h2⟩
          · exact (hnref.not_null h1).elim
          · exact (hnref.not_null h1).elim
        | variantStart =>
          simp only [EdgeOk] at hok ⊢
          obtain ⟨f, x, y, v, h1, h2, h3⟩ := hok
          obtain ⟨rfl, rfl, rfl⟩ := hnref.inj h1
          exact ⟨rf, a + k, b, v, hright, hV.mpr h2, h3⟩
        | variantEnd =>
          simp only [EdgeOk] at hok
          obtain ⟨f, v, g, c, d, h1, _⟩ := hok
          exact (hnref.not_var h1).elim
      · have hsrc' : (src == n) = false := by simpa using hsrc
        simp only [hsrc', Bool.false_eq_true, if_false]
        cases ety with
        | reference =>
          simp only [EdgeOk] at hok ⊢
          rcases hok with ⟨f, x, y, z, h1, h2⟩ | ⟨f, y, hf, h1, h2⟩ | ⟨f, hf, h1, h2⟩
          · by_cases hdst : dst = n
            · subst hdst
              obtain ⟨rfl, rfl, rfl⟩ := hnref.inj h2
              exact Or.inl ⟨rf, x, a, a + k, keep hsrc h1, hleft⟩
            · exact Or.inl ⟨f, x, y, z, keep hsrc h1, keep hdst h2⟩
          · by_cases hdst : dst = n
            · subst hdst
              obtain ⟨e1, e2, e3⟩ := hnref.inj h2
              subst e1 e2 e3
              exact Or.inr (Or.inl ⟨_, _, hf, hN.mpr h1, hleft⟩)
            · exact Or.inr (Or.inl ⟨f, y, hf, hN.mpr h1, keep hdst h2⟩)
          · exact Or.inr (Or.inr ⟨f, hf, hN.mpr h1, hN.mpr h2⟩)
        | variantStart =>
          simp only [EdgeOk] at hok ⊢
          obtain ⟨f, x, y, v, h1, h2, h3⟩ := hok
          exact ⟨f, x, y, v, keep hsrc h1, hV.mpr h2, h3⟩
        | variantEnd =>
          simp only [EdgeOk] at hok ⊢
          obtain ⟨f, v, g, c, d, h1, h2, h3⟩ := hok
          by_cases hdst : dst = n
          · subst hdst
            obtain ⟨rfl, rfl, rfl⟩ := hnref.inj h2
            exact ⟨f, v, rf, a, a + k, hV.mpr h1, hleft, h3⟩
          · exact ⟨f, v, g, c, d, hV.mpr h1, keep hdst h2, h3⟩
    · -- the new edge `n → right`
      simp only [EdgeOk]
      exact Or.inl ⟨rf, a, a + k, b, hleft, hright⟩
  · -- refLinked
    intro i j f x y z hi hj
    rcases hR.mp hi with ⟨rfl, rfl, rfl, rfl⟩ | ⟨rfl, rfl, rfl, rfl⟩ | ⟨hi1, hi2, hi3⟩ <;>
    rcases hR.mp hj with ⟨rfl, hj0, hj1, hj2⟩ | ⟨rfl, hj0, hj1, hj2⟩ | ⟨hj1, hj2, hj3⟩
    · omega
    · exact spliceAt_mem_edges.mpr (Or.inr rfl)
    · -- a node starting inside the old `[a, b)` is `n` itself
      exact absurd (hI.disjoint _ _ _ _ _ _ _ hnref hj3 (by have := (hI.ref_ok hj3).2.2.1; omega) (by omega)).symm hj1
    · omega
    · omega
    · -- old edge `n → j` is now `right → j`
      have := hI.refLinked _ _ _ _ _ _ hnref hj3
      refine spliceAt_mem_edges.mpr (Or.inl ⟨_, this, ?_⟩)
      simp
    · subst hj0 hj1
      have := hI.refLinked _ _ _ _ _ _ hi3 hnref
      refine spliceAt_mem_edges.mpr (Or.inl ⟨_, this, ?_⟩)
      have : (i == n) = false := by simpa using hi1
      simp [this]
    · -- a node ending inside the old `[a, b)` is `n` itself
      subst hj0 hj1
      exact absurd (hI.disjoint _ _ _ _ _ _ _ hi3 hnref (by have := (hI.ref_ok hi3).2.2.1; omega) (by omega)) hi1
    · have := hI.refLinked _ _ _ _ _ _ hi3 hj3
      refine spliceAt_mem_edges.mpr (Or.inl ⟨_, this, ?_⟩)
      have : (i == n) = false := by simpa using hi1
      simp [this]
  · -- outRef
    intro i f x y hi
    simp only [outRefCount, spliceAt, List.filter_append, List.length_append]
    rw [tvg_outCount_rename s.edges n s.nodes.length i (by omega) (fun e he => (hfresh e he).1)]
    rcases hR.mp hi with ⟨rfl, _, _, _⟩ | ⟨rfl, _, _, _⟩ | ⟨hi1, hi2, hi3⟩
    · simp
    · have h0 := hI.outRef _ _ _ _ hnref
      simp only [outRefCount] at h0
      have hne : ¬ s.nodes.length = n := by omega
      have hne' : ¬ n = s.nodes.length := by omega
      simp [hne, hne']
      exact h0
    · have h0 := hI.outRef _ _ _ _ hi3
      simp only [outRefCount] at h0
      have hne' : ¬ n = i := fun h => hi1 h.symm
      simp [hi1, hi2, hne']
      exact h0
  · -- inRef
    intro j f x y hj
    simp only [inRefCount, spliceAt, List.filter_append, List.length_append]
    rw [tvg_inCount_rename]
    rcases hR.mp hj with ⟨rfl, _, _, _⟩ | ⟨rfl, _, _, _⟩ | ⟨hj1, hj2, hj3⟩
    · have h0 := hI.inRef _ _ _ _ hnref
      simp only [inRefCount] at h0
      have hne : ¬ s.nodes.length = n := by omega
      simp [hne]
      exact h0
    · have h0 : (s.edges.filter fun e => e.dst == s.nodes.length && e.ty == .reference) = [] := by
        simp only [List.filter_eq_nil_iff]
        intro e he
        have := (hfresh e he).2
        simp [this]
      simp [h0]
    · have h0 := hI.inRef _ _ _ _ hj3
      simp only [inRefCount] at h0
      have hne : ¬ s.nodes.length = j := fun h => hj2 h.symm
      simp [hne]
      exact h0

theorem startLinked_spliceAt {s : TState} {k : Nat} (n : Nat) (nd : TNode) (a b kk : Nat) (ty : EType)
    (h : StartLinked s k) : StartLinked (spliceAt s n nd a b kk ty) k := by
  obtain ⟨e, he, h1, h2⟩ := h
  refine ⟨_, spliceAt_mem_edges.mpr (Or.inl ⟨e, he, rfl⟩), ?_, ?_⟩ <;> split <;> assumption

theorem endLinked_spliceAt {s : TState} {k n : Nat} (nd : TNode) (a b kk : Nat) (ty : EType)
    (h : EndLinked s k) (hkn : k ≠ n) : EndLinked (spliceAt s n nd a b kk ty) k := by
  obtain ⟨e, he, h1, h2⟩ := h
  refine ⟨_, spliceAt_mem_edges.mpr (Or.inl ⟨e, he, rfl⟩), ?_, ?_⟩
  · have : (e.src == n) = false := by simpa [h1] using hkn
    simp only [this, Bool.false_eq_true, if_false]
    exact h1
  · split <;> assumption

theorem varLinkedExcept_spliceAt {t : List Char} {s : TState} {x : Option Nat} {n rf a b : Nat}
    {sq : List Char} (k : Nat) (ty : EType) (hn : s.nodes[n]? = some ⟨rf, .ref a b, sq⟩)
    (h : VarLinkedExcept t s x) :
    VarLinkedExcept t (spliceAt s n ⟨rf, .ref a b, sq⟩ a b k ty) x := by
  intro k' f v hv hx
  have hv' := (spliceAt_isVar k ty hn rfl).mp hv
  obtain ⟨h1, h2⟩ := h k' f v hv' hx
  have hne : k' ≠ n := by
    intro h; subst h
    exact IsRef.not_var ⟨sq, hn⟩ hv'
  exact ⟨startLinked_spliceAt n _ a b k ty h1, fun hs => endLinked_spliceAt _ a b k ty (h2 hs) hne⟩

/-! ### a new variant node, a new edge -/

theorem addNode_node (s : TState) (vn : TNode) (i : Nat) :
    (addNode s vn).1.nodes[i]? = if i = s.nodes.length then some vn else s.nodes[i]? := by
  simp only [addNode]
  by_cases h : i = s.nodes.length
  · subst h; simp
  · simp only [h, if_false]
    rcases Nat.lt_or_ge i s.nodes.length with h3 | h3
    · rw [List.getElem?_append_left h3]
    · rw [List.getElem?_eq_none (by simp; omega), List.getElem?_eq_none h3]

theorem addNode_snd (s : TState) (vn : TNode) : (addNode s vn).2 = s.nodes.length := rfl

theorem addNode_edges (s : TState) (vn : TNode) : (addNode s vn).1.edges = s.edges := rfl

theorem addNode_length (s : TState) (vn : TNode) :
    (addNode s vn).1.nodes.length = s.nodes.length + 1 := by simp [addNode]

theorem addVar_isRef {s : TState} {rf : Nat} {v : Rec} {sq : List Char} {i f a b : Nat} :
    IsRef (addNode s ⟨rf, .var v, sq⟩).1 i f a b ↔ IsRef s i f a b := by
  simp only [IsRef, addNode_node]
  split
  · rename_i h; subst h; simp
  · rfl

theorem addVar_isNull {s : TState} {rf : Nat} {v : Rec} {sq : List Char} {i f : Nat} :
    IsNull (addNode s ⟨rf, .var v, sq⟩).1 i f ↔ IsNull s i f := by
  simp only [IsNull, addNode_node]
  split
  · rename_i h; subst h; simp
  · rfl

theorem addVar_isVar {s : TState} {rf : Nat} {v : Rec} {sq : List Char} {i f : Nat} {w : Rec} :
    IsVar (addNode s ⟨rf, .var v, sq⟩).1 i f w ↔
      IsVar s i f w ∨ (i = s.nodes.length ∧ rf = f ∧ v = w) := by
  simp only [IsVar, addNode_node]
  split
  · rename_i h; subst h
    simp only [Option.some.injEq, TNode.mk.injEq, NKind.var.injEq, List.getElem?_eq_none (Nat.le_refl _),
      reduceCtorEq, exists_false, false_or, true_and]
    constructor
    · rintro ⟨_, h1, h2, _⟩; exact ⟨h1, h2⟩
    · rintro ⟨h1, h2⟩; exact ⟨_, h1, h2, rfl⟩
  · rename_i h; simp [h]

theorem edgeOk_addVar {s : TState} {rf : Nat} {v : Rec} {sq : List Char} {e : TEdge}
    (h : EdgeOk s e) : EdgeOk (addNode s ⟨rf, .var v, sq⟩).1 e := by
  obtain ⟨src, dst, ty⟩ := e
  cases ty <;> simp only [EdgeOk] at h ⊢
  · rcases h with ⟨f, a, b, c, h1, h2⟩ | ⟨f, b, hf, h1, h2⟩ | ⟨f, hf, h1, h2⟩
    · exact Or.inl ⟨f, a, b, c, addVar_isRef.mpr h1, addVar_isRef.mpr h2⟩
    · exact Or.inr (Or.inl ⟨f, b, hf, addVar_isNull.mpr h1, addVar_isRef.mpr h2⟩)
    · exact Or.inr (Or.inr ⟨f, hf, addVar_isNull.mpr h1, addVar_isNull.mpr h2⟩)
  · obtain ⟨f, a, b, w, h1, h2, h3⟩ := h
    exact ⟨f, a, b, w, addVar_isRef.mpr h1, addVar_isVar.mpr (Or.inl h2), h3⟩
  · obtain ⟨f, w, g, c, d, h1, h2, h3⟩ := h
    exact ⟨f, w, g, c, d, addVar_isVar.mpr (Or.inl h1), addVar_isRef.mpr h2, h3⟩

/-- a fresh variant node (no edges yet) keeps the invariant -/
theorem inv_addVar {t : List Char} {s : TState} (hI : Inv t s) {rf : Nat} {v : Rec} {sq : List Char}
    (hok : NodeOk t ⟨rf, .var v, sq⟩) : Inv t (addNode s ⟨rf, .var v, sq⟩).1 := by
  refine ⟨?_, ?_, ?_, ?_, ?_, ?_, fun i f a b hi => hI.outRef i f a b (addVar_isRef.mp hi),
    fun i f a b hi => hI.inRef i f a b (addVar_isRef.mp hi)⟩
  · intro i n' h
    rw [addNode_node] at h
    split at h
    · cases h; exact hok
    · exact hI.nodesOk i n' h
  · intro f p hf hfp hp
    obtain ⟨i, a, b, hi, h1, h2⟩ := hI.cover f p hf hfp hp
    exact ⟨i, a, b, addVar_isRef.mpr hi, h1, h2⟩
  · intro i j f a b a' b' hi hj h1 h2
    exact hI.disjoint i j f a b a' b' (addVar_isRef.mp hi) (addVar_isRef.mp hj) h1 h2
  · intro e he
    rw [addNode_length]
    have := hI.edgesIn e he
    omega
  · intro e he
    exact edgeOk_addVar (hI.edgeOk e he)
  · intro i j f a b c hi hj
    exact hI.refLinked i j f a b c (addVar_isRef.mp hi) (addVar_isRef.mp hj)

theorem varLinkedExcept_addVar {t : List Char} {s : TState} {rf : Nat} {v : Rec} {sq : List Char}
    (h : VarLinked t s) :
    VarLinkedExcept t (addNode s ⟨rf, .var v, sq⟩).1 (some s.nodes.length) := by
  intro k f w hw hx
  rcases addVar_isVar.mp hw with hw' | ⟨rfl, _, _⟩
  · exact h k f w hw' (by simp)
  · exact absurd rfl hx

/-- a variant edge that agrees with the positions keeps the invariant -/
theorem inv_addEdge {t : List Char} {s : TState} (hI : Inv t s) {i o : Nat} {ty : EType}
    (hi : i < s.nodes.length) (ho : o < s.nodes.length) (hok : EdgeOk s ⟨i, o, ty⟩)
    (hty : ty ≠ .reference := by decide) :
    Inv t (addEdge s i o ty) := by
  have hb : (ty == EType.reference) = false := by simpa using hty
  refine ⟨hI.nodesOk, hI.cover, hI.disjoint, ?_, ?_, ?_, ?_, ?_⟩
  · intro e he
    simp only [addEdge, List.mem_append, List.mem_singleton] at he
    rcases he with he | rfl
    · exact hI.edgesIn e he
    · exact ⟨hi, ho⟩
  · intro e he
    simp only [addEdge, List.mem_append, List.mem_singleton] at he
    rcases he with he | rfl
    · exact hI.edgeOk e he
    · exact hok
  · intro i' j f a b c h1 h2
    simp only [addEdge, List.mem_append, List.mem_singleton]
    exact Or.inl (hI.refLinked i' j f a b c h1 h2)
  · intro i' f a b h
    have := hI.outRef i' f a b h
    simpa [outRefCount, addEdge, List.filter_append, hb] using this
  · intro i' f a b h
    have := hI.inRef i' f a b h
    simpa [inRefCount, addEdge, List.filter_append, hb] using this

theorem startLinked_addEdge {s : TState} {k : Nat} (i o : Nat) (ty : EType) (h : StartLinked s k) :
    StartLinked (addEdge s i o ty) k := by
  obtain ⟨e, he, h1, h2⟩ := h
  exact ⟨e, by simp [addEdge, he], h1, h2⟩

theorem endLinked_addEdge {s : TState} {k : Nat} (i o : Nat) (ty : EType) (h : EndLinked s k) :
    EndLinked (addEdge s i o ty) k := by
  obtain ⟨e, he, h1, h2⟩ := h
  exact ⟨e, by simp [addEdge, he], h1, h2⟩

theorem varLinkedExcept_addEdge {t : List Char} {s : TState} {x : Option Nat} (i o : Nat) (ty : EType)
    (h : VarLinkedExcept t s x) : VarLinkedExcept t (addEdge s i o ty) x := by
  intro k f v hv hx
  obtain ⟨h1, h2⟩ := h k f v hv hx
  exact ⟨startLinked_addEdge i o ty h1, fun hs => endLinked_addEdge i o ty (h2 hs)⟩

/-! ### the model functions on a reference node -/

theorem nodeLoc_ref {s : TState} {i f a b : Nat} (h : IsRef s i f a b) (hab : a < b) :
    nodeLoc s i = .ok (a, b) := by
  obtain ⟨sq, h⟩ := h
  simp [nodeLoc, h, hab]

theorem nodeLoc_ok {s : TState} {i a b : Nat} (h : nodeLoc s i = .ok (a, b)) :
    ∃ f, IsRef s i f a b ∧ a < b := by
  unfold nodeLoc at h
  split at h
  · cases h
  · rename_i n hn
    obtain ⟨rf, kind, sq⟩ := n
    cases kind with
    | root => simp at h
    | var v => simp at h
    | ref x y =>
      simp only at h
      split at h
      · cases h
        exact ⟨rf, ⟨sq, hn⟩, by assumption⟩
      · cases h

theorem getQueryIndex_ref {s : TState} {i f a b : Nat} (h : IsRef s i f a b) (x : Nat) :
    getQueryIndex s i x = .ok (if a ≤ x ∧ x < b then ((x - a : Nat) : Int) else -1) := by
  obtain ⟨sq, h⟩ := h
  simp only [getQueryIndex, h]
  split <;> rfl

theorem pyIndex_nat (k len : Nat) (h : k ≤ len) : pyIndex (k : Int) len = k := by
  simp only [pyIndex]
  have : ¬ ((k : Int) < 0) := by omega
  simp only [this, if_false, Int.toNat_natCast]
  omega

theorem Inv.ref_seq_length {t : List Char} {s : TState} (hI : Inv t s) {i rf a b : Nat} {sq : List Char}
    (h : s.nodes[i]? = some ⟨rf, .ref a b, sq⟩) : sq.length = b - a := by
  have := hI.nodesOk i _ h
  simp only [NodeOk] at this
  obtain ⟨_, _, _, hb, hsq⟩ := this
  rw [hsq, List.length_take, List.length_drop]
  omega

/-- what `splice` at reference position `x` strictly inside the reference node `n = [a, b)` gives -/
structure SpliceRes (t : List Char) (s : TState) (n f a x b : Nat) (s' : TState) : Prop where
  inv : Inv t s'
  left : IsRef s' n f a x
  right : IsRef s' s.nodes.length f x b
  length : s'.nodes.length = s.nodes.length + 1
  keep : ∀ {i g c d : Nat}, i ≠ n → IsRef s i g c d → IsRef s' i g c d
  isRef : ∀ {i g c d : Nat}, IsRef s' i g c d →
    (i = n ∧ g = f ∧ c = a ∧ d = x) ∨ (i = s.nodes.length ∧ g = f ∧ c = x ∧ d = b) ∨
      (i ≠ n ∧ IsRef s i g c d)
  isVar : ∀ {i g : Nat} {v : Rec}, IsVar s' i g v ↔ IsVar s i g v
  linked : ∀ {y : Option Nat}, VarLinkedExcept t s y → VarLinkedExcept t s' y
  startLinked : ∀ {k : Nat}, StartLinked s k → StartLinked s' k
  endLinked : ∀ {k : Nat}, k ≠ n → EndLinked s k → EndLinked s' k

theorem splice_at_pos {t : List Char} {s : TState} (hI : Inv t s) {n f a b x : Nat}
    (hn : IsRef s n f a b) (h1 : a < x) (h2 : x < b) :
    ∃ s', getQueryIndex s n x = .ok ((x - a : Nat) : Int) ∧
      splice s n ((x - a : Nat) : Int) .reference = .ok (s', n, s.nodes.length) ∧
      SpliceRes t s n f a x b s' := by
  obtain ⟨sq, hsq⟩ := hn
  have hlen := hI.ref_seq_length hsq
  refine ⟨spliceAt s n ⟨f, .ref a b, sq⟩ a b (x - a) .reference, ?_, ?_, ?_⟩
  · rw [getQueryIndex_ref ⟨sq, hsq⟩]
    simp [Nat.le_of_lt h1, h2]
  · simp only [splice, hsq]
    rw [pyIndex_nat _ _ (by omega)]
  · have e : a + (x - a) = x := by omega
    have hR := @spliceAt_isRef s n f a b sq (x - a) .reference hsq
    refine ⟨inv_spliceAt hI hsq (by omega) (by omega), ?_, ?_, spliceAt_nodes_length _ _ _ _ _ _ _, ?_, ?_,
      ?_, ?_, ?_, ?_⟩
    · exact hR.mpr (Or.inl ⟨rfl, rfl, rfl, e⟩)
    · exact hR.mpr (Or.inr (Or.inl ⟨rfl, rfl, e, rfl⟩))
    · intro i g c d hne hi
      exact hR.mpr (Or.inr (Or.inr ⟨hne, Nat.ne_of_lt hi.lt, hi⟩))
    · intro i g c d hi
      rcases hR.mp hi with ⟨h1, h2, h3, h4⟩ | ⟨h1, h2, h3, h4⟩ | ⟨h1, _, h3⟩
      · exact Or.inl ⟨h1.symm, h2.symm, h3.symm, by omega⟩
      · exact Or.inr (Or.inl ⟨h1.symm, h2.symm, by omega, h4.symm⟩)
      · exact Or.inr (Or.inr ⟨h1, h3⟩)
    · intro i g v
      exact spliceAt_isVar _ _ hsq rfl
    · intro y hy
      exact varLinkedExcept_spliceAt _ _ hsq hy
    · intro k hk
      exact startLinked_spliceAt _ _ _ _ _ _ hk
    · intro k hk1 hk2
      exact endLinked_spliceAt _ _ _ _ _ hk2 hk1

/-! ### `get_reference_prev`, `get_reference_next`, the walk to the variant end -/

theorem mem_outEdges {s : TState} {i : Nat} {e : TEdge} : e ∈ outEdges s i ↔ e ∈ s.edges ∧ e.src = i := by
  simp [outEdges]

theorem mem_inEdges {s : TState} {i : Nat} {e : TEdge} : e ∈ inEdges s i ↔ e ∈ s.edges ∧ e.dst = i := by
  simp [inEdges]

/-- a reference node with an out-edge ends before the end of the transcript -/
theorem Inv.ref_end_lt_of_outEdge {t : List Char} {s : TState} (hI : Inv t s) {i f a b : Nat}
    (h : IsRef s i f a b) {e : TEdge} (he : e ∈ s.edges) (hsrc : e.src = i) : b < t.length := by
  have hok := hI.edgeOk e he
  obtain ⟨src, dst, ty⟩ := e
  simp only at hsrc; subst hsrc
  cases ty <;> simp only [EdgeOk] at hok
  · rcases hok with ⟨f', x, y, z, h1, h2⟩ | ⟨f', y, _, h1, _⟩ | ⟨f', _, h1, _⟩
    · obtain ⟨_, _, rfl⟩ := h.inj h1
      have := hI.ref_ok h2; omega
    · exact (h.not_null h1).elim
    · exact (h.not_null h1).elim
  · obtain ⟨f', x, y, v, h1, h2, h3⟩ := hok
    obtain ⟨_, _, rfl⟩ := h.inj h1
    have := hI.var_ok h2; omega
  · obtain ⟨f', v, g, c, d, h1, _⟩ := hok
    exact (h.not_var h1).elim

/-- `get_reference_prev` of a reference node that is not the first of its frame is the reference
node ending where it starts -/
theorem getReferencePrev_ref {t : List Char} {s : TState} (hI : Inv t s) {i f a b p : Nat}
    (h : IsRef s i f a b) (hfa : f < a) (hp : getReferencePrev s i = .ok (some p)) :
    ∃ x, IsRef s p f x a := by
  unfold getReferencePrev at hp
  split at hp
  · cases hp
  · rename_i e heq
    cases hp
    have hmem : e ∈ (inEdges s i).filter fun e => e.ty == .reference := by rw [heq]; simp
    obtain ⟨h1, h2⟩ := List.mem_filter.mp hmem
    obtain ⟨h3, h4⟩ := mem_inEdges.mp h1
    have hok := hI.edgeOk e h3
    obtain ⟨src, dst, ty⟩ := e
    simp only at h4 h2 ⊢; subst h4
    have : ty = .reference := by simpa using h2
    subst this
    simp only [EdgeOk] at hok
    rcases hok with ⟨f', x, y, z, k1, k2⟩ | ⟨f', y, _, k1, k2⟩ | ⟨f', _, _, k2⟩
    · obtain ⟨rfl, rfl, _⟩ := h.inj k2
      exact ⟨x, k1⟩
    · obtain ⟨rfl, rfl, _⟩ := h.inj k2
      omega
    · exact (h.not_null k2).elim
  · cases hp

/-- `get_reference_next` of a reference node is the reference node starting where it ends -/
theorem getReferenceNext_ref {t : List Char} {s : TState} (hI : Inv t s) {i f a b nx : Nat}
    (h : IsRef s i f a b) (hp : getReferenceNext s i = .ok (some nx)) : ∃ c, IsRef s nx f b c := by
  unfold getReferenceNext at hp
  split at hp
  · cases hp
  · rename_i e heq
    cases hp
    have hmem : e ∈ outEdges s i := by rw [heq]; simp
    obtain ⟨h1, h2⟩ := mem_outEdges.mp hmem
    have hb := hI.ref_end_lt_of_outEdge h h1 h2
    obtain ⟨j, c, hj⟩ := hI.next_ref h hb
    have hl := hI.refLinked _ _ _ _ _ _ h hj
    have : (⟨i, j, .reference⟩ : TEdge) ∈ outEdges s i := mem_outEdges.mpr ⟨hl, rfl⟩
    rw [heq] at this
    simp only [List.mem_singleton] at this
    subst this
    exact ⟨c, hj⟩
  · split at hp
    · cases hp
    · rename_i e heq
      cases hp
      have hmem : e ∈ (outEdges s i).filter fun e => e.ty == .reference || e.ty == .variantEnd := by
        rw [heq]; simp
      obtain ⟨h1, h2⟩ := List.mem_filter.mp hmem
      obtain ⟨h3, h4⟩ := mem_outEdges.mp h1
      have hok := hI.edgeOk e h3
      obtain ⟨src, dst, ty⟩ := e
      simp only at h4 h2 ⊢; subst h4
      cases ty with
      | reference =>
        simp only [EdgeOk] at hok
        rcases hok with ⟨f', x, y, z, k1, k2⟩ | ⟨f', y, _, k1, _⟩ | ⟨f', _, k1, _⟩
        · obtain ⟨rfl, rfl, rfl⟩ := h.inj k1
          exact ⟨z, k2⟩
        · exact (h.not_null k1).elim
        · exact (h.not_null k1).elim
      | variantStart => simp at h2
      | variantEnd =>
        simp only [EdgeOk] at hok
        obtain ⟨f', v, g, c, d, k1, _⟩ := hok
        exact (h.not_var k1).elim
    · cases hp

/-- `get_reference_prev` of a reference node never depends on the iteration order of the edge
set: there is at most one `reference` in-edge -/
theorem getReferencePrev_total {t : List Char} {s : TState} (hI : Inv t s) {i f a b : Nat}
    (h : IsRef s i f a b) : ∃ r, getReferencePrev s i = .ok r := by
  have hc := hI.inRef i f a b h
  have e : ((inEdges s i).filter fun e => e.ty == .reference) =
      s.edges.filter fun e => e.dst == i && e.ty == .reference := by
    simp only [inEdges, List.filter_filter]
    apply List.filter_congr
    intro e _
    exact Bool.and_comm _ _
  unfold getReferencePrev
  rw [e]
  simp only [inRefCount] at hc
  match hl : s.edges.filter fun e => e.dst == i && e.ty == .reference with
  | [] => rw [hl]; exact ⟨none, rfl⟩
  | [e] => rw [hl]; exact ⟨some e.src, rfl⟩
  | _ :: _ :: _ => rw [hl] at hc; simp at hc

/-- a reference node without out-edges ends at the end of the transcript -/
theorem Inv.end_of_no_outEdge {t : List Char} {s : TState} (hI : Inv t s) {i f a b : Nat}
    (h : IsRef s i f a b) (hout : outEdges s i = []) : b = t.length := by
  rcases Nat.lt_or_ge b t.length with hb | hb
  · obtain ⟨j, c, hj⟩ := hI.next_ref h hb
    have hl := hI.refLinked _ _ _ _ _ _ h hj
    have : (⟨i, j, .reference⟩ : TEdge) ∈ outEdges s i := mem_outEdges.mpr ⟨hl, rfl⟩
    rw [hout] at this
    simp at this
  · have := (hI.ref_ok h).2.2.2; omega

/-- `get_reference_next` of a reference node never raises and never depends on the iteration
order of the edge set: it is `None` at the end of the transcript and otherwise THE reference node
of the frame that starts where this one ends -/
theorem getReferenceNext_total {t : List Char} {s : TState} (hI : Inv t s) {i f a b : Nat}
    (h : IsRef s i f a b) :
    (b = t.length ∧ getReferenceNext s i = .ok none) ∨
      (∃ j c, IsRef s j f b c ∧ getReferenceNext s i = .ok (some j)) := by
  cases hout : outEdges s i with
  | nil =>
    left
    exact ⟨hI.end_of_no_outEdge h hout, by simp [getReferenceNext, hout]⟩
  | cons e0 es =>
    right
    have he0 : e0 ∈ outEdges s i := by rw [hout]; simp
    obtain ⟨h1, h2⟩ := mem_outEdges.mp he0
    have hb := hI.ref_end_lt_of_outEdge h h1 h2
    obtain ⟨j, c, hj⟩ := hI.next_ref h hb
    have hl := hI.refLinked _ _ _ _ _ _ h hj
    have hlm : (⟨i, j, .reference⟩ : TEdge) ∈ outEdges s i := mem_outEdges.mpr ⟨hl, rfl⟩
    -- the candidates are exactly the `reference` out-edges: one
    have ecand : ((outEdges s i).filter fun e => e.ty == .reference || e.ty == .variantEnd) =
        s.edges.filter fun e => e.src == i && e.ty == .reference := by
      simp only [outEdges, List.filter_filter]
      apply List.filter_congr
      intro e he
      by_cases hs : e.src = i
      · have hok := hI.edgeOk e he
        obtain ⟨src, dst, ty⟩ := e
        simp only at hs; subst hs
        cases ty with
        | reference => simp
        | variantStart => simp
        | variantEnd =>
          simp only [EdgeOk] at hok
          obtain ⟨_, _, _, _, _, k1, _⟩ := hok
          exact (h.not_var k1).elim
      · have : (e.src == i) = false := by simpa using hs
        simp [this]
    have hcnt := hI.outRef i f a b h
    simp only [outRefCount] at hcnt
    have hmem : (⟨i, j, .reference⟩ : TEdge) ∈ s.edges.filter fun e => e.src == i && e.ty == .reference := by
      simp [hl]
    refine ⟨j, c, hj, ?_⟩
    cases es with
    | nil =>
      rw [hout] at hlm
      simp only [List.mem_singleton] at hlm
      simp [getReferenceNext, hout, ← hlm]
    | cons e1 es' =>
      simp only [getReferenceNext, hout]
      rw [← hout, ecand]
      match hf : s.edges.filter fun e => e.src == i && e.ty == .reference with
      | [] => rw [hf] at hmem; simp at hmem
      | [e] =>
        rw [hf] at hmem
        simp only [List.mem_singleton] at hmem
        rw [hf]
        simp [← hmem]
      | _ :: _ :: _ => rw [hf] at hcnt; simp at hcnt

/-- the loop of `apply_variant` that looks for the node holding the variant end: it stays on the
reference nodes of the frame and stops at the node that contains `stop`, or starts there, or at
the last node of the frame -/
theorem walkToEnd_ref {t : List Char} {s : TState} (hI : Inv t s) (stop : Nat) :
    ∀ (fuel cur g x y c' : Nat), IsRef s cur g x y → x ≤ stop →
      walkToEnd s fuel cur stop = .ok c' →
      ∃ x' y', IsRef s c' g x' y' ∧ x' ≤ stop ∧ (stop < y' ∨ y' = t.length) ∧
        (c' = cur ∨ y ≤ x') := by
  intro fuel
  induction fuel with
  | zero => intro cur g x y c' _ _ h; simp [walkToEnd] at h
  | succ n ih =>
    intro cur g x y c' hc hx h
    have hxy := (hI.ref_ok hc).2.2.1
    simp only [walkToEnd, nodeLoc_ref hc hxy] at h
    simp only [bind, Except.bind] at h
    split at h
    · rename_i hcond
      simp only [Bool.and_eq_true, decide_eq_true_eq, Bool.not_eq_true', List.isEmpty_eq_false_iff] at hcond
      cases hnx : getReferenceNext s cur with
      | error m => simp [hnx] at h
      | ok o =>
        simp only [hnx] at h
        cases o with
        | none => simp at h
        | some nx =>
          obtain ⟨c, hn⟩ := getReferenceNext_ref hI hc hnx
          obtain ⟨x', y', h1, h2, h3, h4⟩ := ih nx g y c c' hn hcond.1 h
          refine ⟨x', y', h1, h2, h3, Or.inr ?_⟩
          rcases h4 with rfl | h4
          · exact Nat.le_of_eq (h1.inj hn).2.1.symm
          · have := (hI.ref_ok hn).2.2.1; omega
    · rename_i hcond
      simp only [pure, Except.pure, Except.ok.injEq] at h
      subst h
      refine ⟨x, y, hc, hx, ?_, Or.inl rfl⟩
      simp only [Bool.and_eq_true, decide_eq_true_eq, Bool.not_eq_true', List.isEmpty_eq_false_iff,
        not_and] at hcond
      rcases Nat.lt_or_ge stop y with hlt | hge
      · exact Or.inl hlt
      · right
        apply hI.end_of_no_outEdge hc
        have := hcond hge
        simpa using this

/-! ### `apply_variant` preserves the invariant -/

theorem isVar_addEdge {s : TState} {i o : Nat} {ty : EType} {k f : Nat} {v : Rec} :
    IsVar (addEdge s i o ty) k f v ↔ IsVar s k f v := Iff.rfl

theorem isRef_addEdge {s : TState} {i o : Nat} {ty : EType} {k f a b : Nat} :
    IsRef (addEdge s i o ty) k f a b ↔ IsRef s k f a b := Iff.rfl

theorem startLinked_new (s : TState) (i k : Nat) : StartLinked (addEdge s i k .variantStart) k :=
  ⟨⟨i, k, .variantStart⟩, by simp [addEdge], rfl, rfl⟩

theorem endLinked_new (s : TState) (k o : Nat) : EndLinked (addEdge s k o .variantEnd) k :=
  ⟨⟨k, o, .variantEnd⟩, by simp [addEdge], rfl, rfl⟩

/-- between two states: every reference node keeps its frame and its start (a `splice` keeps
the left part under the old identity); reference nodes of frames other than `f`, `g` are untouched -/
structure Step (s s' : TState) (f g : Nat) : Prop where
  keepStart : ∀ {i h x y : Nat}, IsRef s i h x y → ∃ y', IsRef s' i h x y'
  keepOther : ∀ {i h x y : Nat}, IsRef s i h x y → h ≠ f → h ≠ g → IsRef s' i h x y

theorem Step.same (s : TState) (f g : Nat) : Step s s f g :=
  ⟨fun h => ⟨_, h⟩, fun h _ _ => h⟩

theorem Step.trans {s s1 s2 : TState} {f g : Nat} (h1 : Step s s1 f g) (h2 : Step s1 s2 f g) :
    Step s s2 f g :=
  ⟨fun h => by obtain ⟨y', h'⟩ := h1.keepStart h; exact h2.keepStart h',
   fun h hf hg => h2.keepOther (h1.keepOther h hf hg) hf hg⟩

theorem Step.left {s s' : TState} {f : Nat} (h : Step s s' f f) (g : Nat) : Step s s' f g :=
  ⟨h.keepStart, fun hi hf _ => h.keepOther hi hf hf⟩

theorem Step.right {s s' : TState} {g : Nat} (h : Step s s' g g) (f : Nat) : Step s s' f g :=
  ⟨h.keepStart, fun hi _ hg => h.keepOther hi hg hg⟩

theorem Step.addEdge (s : TState) (i o : Nat) (ty : EType) (f g : Nat) : Step s (addEdge s i o ty) f g :=
  ⟨fun h => ⟨_, h⟩, fun h _ _ => h⟩

theorem Step.addVar (s : TState) (rf : Nat) (v : Rec) (sq : List Char) (f g : Nat) :
    Step s (addNode s ⟨rf, .var v, sq⟩).1 f g :=
  ⟨fun h => ⟨_, addVar_isRef.mpr h⟩, fun h _ _ => addVar_isRef.mpr h⟩

theorem SpliceRes.step {t : List Char} {s s' : TState} {n f a x b : Nat}
    (hres : SpliceRes t s n f a x b s') (hn : IsRef s n f a b) : Step s s' f f := by
  constructor
  · intro i h x0 y0 hi
    by_cases hin : i = n
    · subst hin
      obtain ⟨rfl, rfl, rfl⟩ := hn.inj hi
      exact ⟨_, hres.left⟩
    · exact ⟨_, hres.keep hin hi⟩
  · intro i h x0 y0 hi hf _
    have hin : i ≠ n := by
      intro hin; subst hin
      exact hf (hn.inj hi).1.symm
    exact hres.keep hin hi

/-- "# variant start" of `apply_variant`: the variant node `k` of record `v` gets its
`variant_start` edge from the reference node ending at `v.start` -/
theorem avStart_inv {t : List Char} {s : TState} (hI : Inv t s) {k f : Nat} {v : Rec}
    (hL : VarLinkedExcept t s (some k)) (hv : IsVar s k f v)
    {source a b : Nat} (hs : IsRef s source f a b) (h1 : a ≤ v.start) (h2 : v.start < b)
    (hf : f < v.start)
    {target g c d : Nat} (ht : IsRef s target g c d) (hc : c ≤ v.start)
    {s' : TState} {ret0 target' : Nat}
    (h : avStart s source target k v a (source == target) = .ok (s', ret0, target')) :
    Inv t s' ∧ VarLinkedExcept t s' (some k) ∧ StartLinked s' k ∧ IsVar s' k f v ∧
      (∃ c', IsRef s' target' g c' d ∧ c' ≤ v.start) ∧ Step s s' f f ∧
      (∃ x y, IsRef s' ret0 f x y ∧ x ≤ v.start) ∧
      (source ≠ target → target' = target ∧ IsRef s' target g c d) := by
  unfold avStart at h
  split at h
  · -- the variant starts where the source node starts
    rename_i heq
    have heq : v.start = a := by simpa using heq
    obtain ⟨o, ho, h⟩ := tvg_bind_ok.mp h
    cases o with
    | none => simp at h
    | some prev =>
      simp only [pure, Except.pure, Except.ok.injEq, Prod.mk.injEq] at h
      obtain ⟨rfl, rfl, rfl⟩ := h
      obtain ⟨x, hp⟩ := getReferencePrev_ref hI hs (by omega) ho
      refine ⟨inv_addEdge hI hp.lt hv.lt ?_, varLinkedExcept_addEdge _ _ _ hL, startLinked_new _ _ _,
        hv, ⟨c, ht, hc⟩, Step.addEdge _ _ _ _ _ _, ⟨a, b, hs, h1⟩, fun _ => ⟨rfl, ht⟩⟩
      simp only [EdgeOk]
      exact ⟨f, x, a, v, hp, hv, heq.symm⟩
  · rename_i hne
    have hne : v.start ≠ a := by simpa using hne
    obtain ⟨sr, hq, hsp, hres⟩ := splice_at_pos hI hs (by omega : a < v.start) h2
    simp only [hq, bind, Except.bind, hsp, pure, Except.pure, Except.ok.injEq, Prod.mk.injEq] at h
    obtain ⟨rfl, rfl, rfl⟩ := h
    have hvr : IsVar sr k f v := hres.isVar.mpr hv
    have hkl : k < sr.nodes.length := hvr.lt
    refine ⟨inv_addEdge hres.inv hres.left.lt hkl ?_, varLinkedExcept_addEdge _ _ _ (hres.linked hL),
      startLinked_new _ _ _, hvr, ?_, (hres.step hs).trans (Step.addEdge _ _ _ _ _ _),
      ⟨a, v.start, hres.left, h1⟩, ?_⟩
    · simp only [EdgeOk]
      exact ⟨f, a, v.start, v, hres.left, hvr, rfl⟩
    · by_cases hst : source = target
      · subst hst
        obtain ⟨rfl, rfl, rfl⟩ := hs.inj ht
        simp only [beq_self_eq_true, if_true]
        exact ⟨v.start, hres.right, Nat.le_refl _⟩
      · have : (source == target) = false := by simpa using hst
        simp only [this, Bool.false_eq_true, if_false]
        exact ⟨c, hres.keep (fun h => hst h.symm) ht, hc⟩
    · intro hst
      have : (source == target) = false := by simpa using hst
      simp only [this, Bool.false_eq_true, if_false, true_and]
      exact hres.keep (fun h => hst h.symm) ht

/-- all variant nodes are linked once the exempted one has both its edges -/
theorem varLinked_of_except {t : List Char} {s : TState} {k f : Nat} {v : Rec}
    (hL : VarLinkedExcept t s (some k)) (hv : IsVar s k f v) (h1 : StartLinked s k)
    (h2 : v.stop < t.length → EndLinked s k) : VarLinked t s := by
  intro k' f' v' hv' _
  by_cases hk : k' = k
  · subst hk
    obtain ⟨_, rfl⟩ := hv.inj hv'
    exact ⟨h1, h2⟩
  · exact hL k' f' v' hv' (by simpa using hk)

/-- "# variant end" of `apply_variant`: the variant node `k` gets its `variant_end` edge to the
reference node starting at `v.stop` (none when the record reaches the end of the transcript).
About the returned cursors: `r0` is a reference node of the source frame `f0` starting at or
before `v.start`; `r1` one of the target frame, and when the call bridges two frames and the
target node reached beyond `v.start`, so does `r1`. -/
theorem avEnd_inv {t : List Char} {s : TState} (hI : Inv t s) {k f : Nat} {v : Rec}
    (hL : VarLinkedExcept t s (some k)) (hSL : StartLinked s k) (hv : IsVar s k f v)
    {target g c d : Nat} (ht : IsRef s target g c d) (hc : c ≤ v.start)
    {ret0 f0 : Nat} (hr0 : ∃ x y, IsRef s ret0 f0 x y ∧ x ≤ v.start)
    {inFrame atStart : Bool} (hin : inFrame = true → g = f0)
    {s' : TState} {r0 r1 : Nat}
    (h : avEnd s target k v d ret0 inFrame atStart = .ok (s', r0, r1)) :
    Inv t s' ∧ VarLinked t s' ∧ Step s s' g g ∧
      (∃ x y, IsRef s' r0 f0 x y ∧ x ≤ v.start) ∧
      (∃ x y, IsRef s' r1 g x y ∧ x ≤ v.start ∧ (inFrame = false → v.start < d → v.start < y)) := by
  obtain ⟨_, _, hss, hsL⟩ := hI.var_ok hv
  obtain ⟨rx, ry, hr0, hrx⟩ := hr0
  unfold avEnd at h
  split at h
  · -- the variant ends inside the target node
    rename_i hlt
    obtain ⟨sr, hq, hsp, hres⟩ := splice_at_pos hI ht (by omega : c < v.stop) hlt
    have hvr : IsVar sr k f v := hres.isVar.mpr hv
    have hI' : Inv t (addEdge sr k s.nodes.length .variantEnd) := by
      refine inv_addEdge hres.inv hvr.lt hres.right.lt ?_
      simp only [EdgeOk]
      exact ⟨f, v, g, v.stop, d, hvr, hres.right, rfl⟩
    have hL' : VarLinked t (addEdge sr k s.nodes.length .variantEnd) :=
      varLinked_of_except (varLinkedExcept_addEdge _ _ _ (hres.linked hL)) hvr
        (startLinked_addEdge _ _ _ (hres.startLinked hSL)) (fun _ => endLinked_new _ _ _)
    have hstep : Step s (addEdge sr k s.nodes.length .variantEnd) g g :=
      (hres.step ht).trans (Step.addEdge _ _ _ _ _ _)
    have hhead : IsRef (addEdge sr k s.nodes.length .variantEnd) target g c v.stop := hres.left
    obtain ⟨ry', hr0'⟩ := hstep.keepStart hr0
    simp only [hq, bind, Except.bind, hsp] at h
    cases inFrame <;> cases atStart <;>
      simp only [pure, Except.pure, if_true, if_false, Bool.false_eq_true, Except.ok.injEq,
        Prod.mk.injEq] at h <;>
      obtain ⟨rfl, rfl, rfl⟩ := h
    · exact ⟨hI', hL', hstep, ⟨rx, ry', hr0', hrx⟩, ⟨c, v.stop, hhead, hc, fun _ _ => by omega⟩⟩
    · exact ⟨hI', hL', hstep, ⟨rx, ry', hr0', hrx⟩, ⟨c, v.stop, hhead, hc, fun _ _ => by omega⟩⟩
    · have hg := hin rfl; subst hg
      exact ⟨hI', hL', hstep, ⟨rx, ry', hr0', hrx⟩, ⟨rx, ry', hr0', hrx, fun h => by simp at h⟩⟩
    · have hg := hin rfl; subst hg
      exact ⟨hI', hL', hstep, ⟨c, v.stop, hhead, hc⟩, ⟨c, v.stop, hhead, hc, fun h => by simp at h⟩⟩
  · -- the variant ends at or behind the end of the target node
    rename_i hge
    obtain ⟨cur, hw, h⟩ := tvg_bind_ok.mp h
    obtain ⟨x', y', hcur, hx', hy', hfar⟩ := walkToEnd_ref hI v.stop _ _ _ _ _ _ ht (by omega) hw
    have hxy := (hI.ref_ok hcur).2.2.1
    have hcd := (hI.ref_ok ht).2.2.1
    simp only [nodeLoc_ref hcur hxy, bind, Except.bind] at h
    -- whatever the branch: the result state `s2`, with the target node and `ret0` kept
    suffices hmain : ∀ s2, Inv t s2 → VarLinked t s2 → Step s s2 g g → IsRef s2 target g c d →
        (s2, ret0, if inFrame = true then ret0 else target) = (s', r0, r1) →
        Inv t s' ∧ VarLinked t s' ∧ Step s s' g g ∧
          (∃ x y, IsRef s' r0 f0 x y ∧ x ≤ v.start) ∧
          (∃ x y, IsRef s' r1 g x y ∧ x ≤ v.start ∧
            (inFrame = false → v.start < d → v.start < y)) by
      by_cases hgt : y' > v.stop
      · simp only [hgt, if_true, getQueryIndex_ref hcur] at h
        have hin' : x' ≤ v.stop ∧ v.stop < y' := ⟨hx', hgt⟩
        simp only [hin', and_self, if_true] at h
        -- `cur` is not the target node: the target ends at or before `v.stop`
        have hne : cur ≠ target := by
          intro he; subst he
          have := (hcur.inj ht).2.2; omega
        by_cases hz : x' = v.stop
        · -- the node starts exactly at the variant end
          have : ((v.stop - x' : Nat) : Int) == 0 := by simp [hz]
          simp only [this, if_true, pure, Except.pure, Except.ok.injEq] at h
          refine hmain _ (inv_addEdge hI hv.lt hcur.lt ?_)
            (varLinked_of_except (varLinkedExcept_addEdge _ _ _ hL) hv
              (startLinked_addEdge _ _ _ hSL) (fun _ => endLinked_new _ _ _))
            (Step.addEdge _ _ _ _ _ _) ht h
          simp only [EdgeOk]
          exact ⟨f, v, g, x', y', hv, hcur, hz⟩
        · have : (((v.stop - x' : Nat) : Int) == 0) = false := by
            have : v.stop - x' ≠ 0 := by omega
            simpa using this
          obtain ⟨sr, hq, hsp, hres⟩ := splice_at_pos hI hcur (by omega : x' < v.stop) hgt
          simp only [this, Bool.false_eq_true, if_false, hsp, pure, Except.pure, Except.ok.injEq] at h
          have hvr : IsVar sr k f v := hres.isVar.mpr hv
          refine hmain _ (inv_addEdge hres.inv hvr.lt hres.right.lt ?_)
            (varLinked_of_except (varLinkedExcept_addEdge _ _ _ (hres.linked hL)) hvr
              (startLinked_addEdge _ _ _ (hres.startLinked hSL)) (fun _ => endLinked_new _ _ _))
            ((hres.step hcur).trans (Step.addEdge _ _ _ _ _ _)) (hres.keep hne.symm ht) h
          simp only [EdgeOk]
          exact ⟨f, v, g, v.stop, y', hvr, hres.right, rfl⟩
      · -- the record reaches the end of the transcript: no `variant_end` edge
        simp only [hgt, if_false, pure, Except.pure, Except.ok.injEq] at h
        refine hmain _ hI (varLinked_of_except hL hv hSL ?_) (Step.same _ _ _) ht h
        intro hlt
        omega
    intro s2 hI2 hL2 hstep ht2 heq
    simp only [Prod.mk.injEq] at heq
    obtain ⟨rfl, rfl, rfl⟩ := heq
    obtain ⟨ry', hr0'⟩ := hstep.keepStart hr0
    refine ⟨hI2, hL2, hstep, ⟨rx, ry', hr0', hrx⟩, ?_⟩
    cases inFrame with
    | true =>
      have hg := hin rfl; subst hg
      exact ⟨rx, ry', hr0', hrx, fun h => by simp at h⟩
    | false =>
      exact ⟨c, d, ht2, hc, fun _ h => h⟩

/-- the precondition of `apply_variant(source, target, variant)` under which the invariant is
kept: the record is a non-empty stretch inside the transcript; `source` is a reference node
`[a, b)` of some frame `f` with `a ≤ start < b` and `f < start` (it is not asked to hang a
variant on the frame root); `target` is a reference node starting at or before `start`.
(`create_variant_graph` guarantees them: its filter drops records before `start_index ≥ 3`, the
cursor checks of its loop give `a ≤ start < b`.) -/
structure ApplyPre (t : List Char) (s : TState) (source target : Nat) (v : Rec) : Prop where
  wf : v.start < v.stop ∧ v.stop ≤ t.length
  src : ∃ f a b, IsRef s source f a b ∧ f < v.start ∧ a ≤ v.start ∧ v.start < b
  tgt : ∃ g c d, IsRef s target g c d ∧ c ≤ v.start

/-- `apply_variant` keeps the partition invariant and links the new variant node; only
reference nodes of the source frame `f` and the target frame `g` are touched; the returned
cursors are reference nodes of those frames starting at or before `v.start`, and the cursor of
a bridged target frame still reaches beyond `v.start` if the target node did -/
theorem applyVariant_spec {t : List Char} {s : TState} (hI : Inv t s) (hL : VarLinked t s)
    {source target : Nat} {v : Rec} (hw : v.start < v.stop ∧ v.stop ≤ t.length)
    {f a b : Nat} (hs : IsRef s source f a b) (hf : f < v.start) (ha : a ≤ v.start) (hb : v.start < b)
    {g c d : Nat} (ht : IsRef s target g c d) (hc : c ≤ v.start)
    {s' : TState} {r0 r1 : Nat} (h : applyVariant s source target v = .ok (s', r0, r1)) :
    Inv t s' ∧ VarLinked t s' ∧ Step s s' f g ∧
      (∃ x y, IsRef s' r0 f x y ∧ x ≤ v.start) ∧
      (∃ x y, IsRef s' r1 g x y ∧ x ≤ v.start ∧ (source ≠ target → v.start < d → v.start < y)) := by
  obtain ⟨hw1, hw2⟩ := hw
  have hab := (hI.ref_ok hs).2.2.1
  have hcd := (hI.ref_ok ht).2.2.1
  have hrf : (s.nodes[source]?.map (·.rf)).getD 3 = f := by
    obtain ⟨sq, hsq⟩ := hs
    simp [hsq]
  simp only [applyVariant, nodeLoc_ref hs hab, nodeLoc_ref ht hcd, bind, Except.bind, hrf] at h
  split at h
  · simp [throw, throwThe, MonadExceptOf.throw] at h
  · split at h
    · simp [throw, throwThe, MonadExceptOf.throw] at h
    · -- the new variant node
      have hI1 : Inv t (addNode s ⟨f, .var v, v.alt⟩).1 :=
        inv_addVar hI (by simp only [NodeOk]; exact ⟨(hI.ref_ok hs).1, trivial, hf, hw1, hw2⟩)
      have hL1 := @varLinkedExcept_addVar t s f v v.alt hL
      have hv1 : IsVar (addNode s ⟨f, .var v, v.alt⟩).1 s.nodes.length f v :=
        addVar_isVar.mpr (Or.inr ⟨rfl, rfl, rfl⟩)
      have hs1 : IsRef (addNode s ⟨f, .var v, v.alt⟩).1 source f a b := addVar_isRef.mpr hs
      have ht1 : IsRef (addNode s ⟨f, .var v, v.alt⟩).1 target g c d := addVar_isRef.mpr ht
      simp only [addNode_snd] at h
      cases hst : avStart (addNode s ⟨f, .var v, v.alt⟩).1 source target s.nodes.length v a
          (source == target) with
      | error m => simp [hst] at h
      | ok res =>
        obtain ⟨s2, ret0, target'⟩ := res
        simp only [hst] at h
        obtain ⟨hI2, hL2, hSL2, hv2, ⟨c', ht2, hc2⟩, hstep2, hret0, hkeep⟩ :=
          avStart_inv hI1 hL1 hv1 hs1 ha hb hf ht1 hc hst
        have hin : (source == target) = true → g = f := by
          intro he
          have : source = target := by simpa using he
          subst this
          exact (ht.inj hs).1
        obtain ⟨hI3, hL3, hstep3, hr0, x, y, hr1, hx, hy⟩ :=
          avEnd_inv hI2 hL2 hSL2 hv2 ht2 hc2 hret0 hin h
        refine ⟨hI3, hL3, ?_, hr0, x, y, hr1, hx, ?_⟩
        · exact ((Step.addVar s f v v.alt f g).trans (hstep2.left g)).trans (hstep3.right f)
        · intro hne hd
          exact hy (by simpa using hne) hd

/-- `apply_variant` keeps the partition invariant and links the new variant node -/
theorem applyVariant_inv {t : List Char} {s : TState} (hI : Inv t s) (hL : VarLinked t s)
    {source target : Nat} {v : Rec} (hpre : ApplyPre t s source target v)
    {s' : TState} {r0 r1 : Nat} (h : applyVariant s source target v = .ok (s', r0, r1)) :
    Inv t s' ∧ VarLinked t s' := by
  obtain ⟨hw, ⟨f, a, b, hs, hf, ha, hb⟩, ⟨g, c, d, ht, hc⟩⟩ := hpre
  obtain ⟨h1, h2, _⟩ := applyVariant_spec hI hL hw hs hf ha hb ht hc h
  exact ⟨h1, h2⟩

/-! ### `init_three_frames`, and the theorem -/

theorem initThreeFrames_inv (t : List Char) (h3 : 3 ≤ t.length) :
    Inv t (initThreeFrames t) ∧ VarLinked t (initThreeFrames t) := by
  have nodes : ∀ i n, (initThreeFrames t).nodes[i]? = some n →
      (i = 0 ∧ n = ⟨3, .root, []⟩) ∨ (i = 1 ∧ n = ⟨0, .root, []⟩) ∨ (i = 2 ∧ n = ⟨1, .root, []⟩) ∨
      (i = 3 ∧ n = ⟨2, .root, []⟩) ∨ (i = 4 ∧ n = ⟨0, .ref 0 t.length, t⟩) ∨
      (i = 5 ∧ n = ⟨1, .ref 1 t.length, t.drop 1⟩) ∨ (i = 6 ∧ n = ⟨2, .ref 2 t.length, t.drop 2⟩) := by
    intro i n h
    simp only [initThreeFrames] at h
    match i, h with
    | 0, h => simp at h; simp [h]
    | 1, h => simp at h; simp [h]
    | 2, h => simp at h; simp [h]
    | 3, h => simp at h; simp [h]
    | 4, h => simp at h; simp [h]
    | 5, h => simp at h; simp [h]
    | 6, h => simp at h; simp [h]
    | k + 7, h => simp at h
  have isRef : ∀ {i f a b}, IsRef (initThreeFrames t) i f a b ↔
      (i = f + 4 ∧ f < 3 ∧ a = f ∧ b = t.length) := by
    intro i f a b
    simp only [IsRef, initThreeFrames]
    match i with
    | 0 => simp
    | 1 => simp
    | 2 => simp
    | 3 => simp
    | 4 => simp; omega
    | 5 => simp; omega
    | 6 => simp; omega
    | k + 7 => simp; omega
  have noVar : ∀ {i f v}, ¬ IsVar (initThreeFrames t) i f v := by
    rintro i f v ⟨sq, h⟩
    rcases nodes i _ h with ⟨_, h⟩ | ⟨_, h⟩ | ⟨_, h⟩ | ⟨_, h⟩ | ⟨_, h⟩ | ⟨_, h⟩ | ⟨_, h⟩ <;> simp at h
  refine ⟨⟨?_, ?_, ?_, ?_, ?_, ?_, ?_, ?_⟩, ?_⟩
  · intro i n h
    rcases nodes i n h with ⟨_, rfl⟩ | ⟨_, rfl⟩ | ⟨_, rfl⟩ | ⟨_, rfl⟩ | ⟨_, rfl⟩ | ⟨_, rfl⟩ | ⟨_, rfl⟩ <;>
      simp only [NodeOk] <;> (try trivial)
    · refine ⟨by omega, by omega, by omega, by omega, ?_⟩; simp
    · refine ⟨by omega, by omega, by omega, by omega, ?_⟩
      rw [List.take_of_length_le]; simp
    · refine ⟨by omega, by omega, by omega, by omega, ?_⟩
      rw [List.take_of_length_le]; simp
  · intro f p hf hfp hp
    exact ⟨f + 4, f, t.length, isRef.mpr ⟨rfl, hf, rfl, rfl⟩, hfp, hp⟩
  · intro i j f a b a' b' hi hj _ _
    have := isRef.mp hi; have := isRef.mp hj; omega
  · intro e he
    simp only [initThreeFrames, List.mem_cons, List.not_mem_nil, or_false] at he
    rcases he with rfl | rfl | rfl | rfl | rfl | rfl <;> simp [initThreeFrames]
  · intro e he
    simp only [initThreeFrames, List.mem_cons, List.not_mem_nil, or_false] at he
    rcases he with rfl | rfl | rfl | rfl | rfl | rfl <;> simp only [EdgeOk]
    · exact Or.inr (Or.inl ⟨0, t.length, by omega, ⟨_, rfl⟩, isRef.mpr ⟨rfl, by omega, rfl, rfl⟩⟩)
    · exact Or.inr (Or.inr ⟨0, by omega, ⟨_, rfl⟩, ⟨_, rfl⟩⟩)
    · exact Or.inr (Or.inl ⟨1, t.length, by omega, ⟨_, rfl⟩, isRef.mpr ⟨rfl, by omega, rfl, rfl⟩⟩)
    · exact Or.inr (Or.inr ⟨1, by omega, ⟨_, rfl⟩, ⟨_, rfl⟩⟩)
    · exact Or.inr (Or.inl ⟨2, t.length, by omega, ⟨_, rfl⟩, isRef.mpr ⟨rfl, by omega, rfl, rfl⟩⟩)
    · exact Or.inr (Or.inr ⟨2, by omega, ⟨_, rfl⟩, ⟨_, rfl⟩⟩)
  · intro i j f a b c hi hj
    have h1 := isRef.mp hi; have h2 := isRef.mp hj; omega
  · intro i f a b hi
    obtain ⟨rfl, hf, _, _⟩ := isRef.mp hi
    match f, hf with
    | 0, _ => simp [outRefCount, initThreeFrames]
    | 1, _ => simp [outRefCount, initThreeFrames]
    | 2, _ => simp [outRefCount, initThreeFrames]
  · intro i f a b hi
    obtain ⟨rfl, hf, _, _⟩ := isRef.mp hi
    match f, hf with
    | 0, _ => simp [inRefCount, initThreeFrames]
    | 1, _ => simp [inRefCount, initThreeFrames]
    | 2, _ => simp [inRefCount, initThreeFrames]
  · intro k f v hv _
    exact (noVar hv).elim

/-- the precondition of `splice(node, i, 'reference')`: a reference node, cut strictly inside -/
def SplicePre (s : TState) (n : Nat) (i : Int) : Prop :=
  ∃ f a b, IsRef s n f a b ∧ 0 < i ∧ i < ((b - a : Nat) : Int)

/-- `splice` keeps the partition invariant -/
theorem splice_inv {t : List Char} {s : TState} (hI : Inv t s) (hL : VarLinked t s)
    {n : Nat} {i : Int} (hpre : SplicePre s n i) {s' : TState} {l r : Nat}
    (h : splice s n i .reference = .ok (s', l, r)) : Inv t s' ∧ VarLinked t s' := by
  obtain ⟨f, a, b, ⟨sq, hsq⟩, h0, hi⟩ := hpre
  have hlen := hI.ref_seq_length hsq
  simp only [splice, hsq, Except.ok.injEq, Prod.mk.injEq] at h
  obtain ⟨rfl, _, _⟩ := h
  have hk : pyIndex i sq.length = i.toNat := by
    have : ¬ (i < 0) := by omega
    simp only [pyIndex, this, if_false]
    omega
  rw [hk]
  exact ⟨inv_spliceAt hI hsq (by omega) (by omega), varLinkedExcept_spliceAt _ _ hsq hL⟩

/-- the states reachable by `init_three_frames` followed by any sequence of `splice` /
`apply_variant` calls whose preconditions hold -/
inductive Reach (t : List Char) : TState → Prop
  | init : Reach t (initThreeFrames t)
  | splice {s s' : TState} {n l r : Nat} {i : Int} :
      Reach t s → SplicePre s n i → Tvg.splice s n i .reference = .ok (s', l, r) → Reach t s'
  | apply {s s' : TState} {source target r0 r1 : Nat} {v : Rec} :
      Reach t s → ApplyPre t s source target v →
      applyVariant s source target v = .ok (s', r0, r1) → Reach t s'

/-- THE PARTITION INVARIANT, by induction over the operations -/
theorem reach_inv {t : List Char} (h3 : 3 ≤ t.length) {s : TState} (h : Reach t s) :
    Inv t s ∧ VarLinked t s := by
  induction h with
  | init => exact initThreeFrames_inv t h3
  | splice _ hpre hs ih => exact splice_inv ih.1 ih.2 hpre hs
  | apply _ hpre ha ih => exact applyVariant_inv ih.1 ih.2 hpre ha

/-! ### the tiling as a list: the reference nodes of a frame, ordered by start -/

/-- `l` = (node, start, end) triples that are contiguous from `a` to `L`, each non-empty -/
def RefChain (a L : Nat) : List (Nat × Nat × Nat) → Prop
  | [] => a = L
  | (_, x, y) :: rest => x = a ∧ x < y ∧ RefChain y L rest

theorem tvg_chain_from {t : List Char} {s : TState} (hI : Inv t s) (f : Nat) :
    ∀ (n a : Nat), t.length - a ≤ n → (a = t.length ∨ ∃ i b, IsRef s i f a b) →
      ∃ l, RefChain a t.length l ∧ (∀ x ∈ l, IsRef s x.1 f x.2.1 x.2.2) ∧
        ∀ i x y, IsRef s i f x y → a ≤ x → (i, x, y) ∈ l := by
  intro n
  induction n with
  | zero =>
    intro a ha hs
    have haL : a = t.length := by
      rcases hs with h | ⟨i, b, hi⟩
      · exact h
      · have := hI.ref_ok hi; omega
    refine ⟨[], haL, by simp, ?_⟩
    intro i x y hi hx
    have := hI.ref_ok hi; omega
  | succ n ih =>
    intro a ha hs
    rcases hs with haL | ⟨i, b, hi⟩
    · refine ⟨[], haL, by simp, ?_⟩
      intro j x y hj hx
      have := hI.ref_ok hj; omega
    · obtain ⟨_, _, hab, hbL⟩ := hI.ref_ok hi
      have hnext : b = t.length ∨ ∃ j c, IsRef s j f b c := by
        rcases Nat.lt_or_ge b t.length with h | h
        · exact Or.inr (hI.next_ref hi h)
        · exact Or.inl (by omega)
      obtain ⟨l, hl1, hl2, hl3⟩ := ih b (by omega) hnext
      refine ⟨(i, a, b) :: l, ⟨rfl, hab, hl1⟩, ?_, ?_⟩
      · intro x hx
        rcases List.mem_cons.mp hx with rfl | hx
        · exact hi
        · exact hl2 x hx
      · intro j x y hj hx
        rcases Nat.lt_or_ge x b with hlt | hge
        · have hxy := (hI.ref_ok hj).2.2.1
          have := hI.disjoint i j f a b x y hi hj (by omega) hlt
          subst this
          obtain ⟨_, rfl, rfl⟩ := hi.inj hj
          simp
        · exact List.mem_cons_of_mem _ (hl3 j x y hj hge)

/-- **the reference nodes of frame `f`, ordered by start, tile `[f, |t|)` exactly**: there is a
list of (node, start, end) triples, contiguous from `f` to `|t|`, every stretch non-empty, that
consists of reference nodes of frame `f` and contains every one of them -/
theorem tvg_frame_chain {t : List Char} {s : TState} (hI : Inv t s) {f : Nat} (hf : f < 3)
    (h3 : 3 ≤ t.length) :
    ∃ l, RefChain f t.length l ∧ (∀ x ∈ l, IsRef s x.1 f x.2.1 x.2.2) ∧
      ∀ i x y, IsRef s i f x y → (i, x, y) ∈ l := by
  obtain ⟨i, a, b, hi, h1, h2⟩ := hI.cover f f hf (Nat.le_refl _) (by omega)
  have ha : a = f := by have := hI.ref_ok hi; omega
  subst ha
  obtain ⟨l, hl1, hl2, hl3⟩ := tvg_chain_from hI a t.length a (by omega) (Or.inr ⟨i, b, hi⟩)
  exact ⟨l, hl1, hl2, fun j x y hj => hl3 j x y hj (hI.ref_ok hj).2.1⟩

/-! ### under the invariant the graph IS the position automaton (soundness direction) -/

open MoPepGen.Graph

/-- `p` is a maximal path of the graph `s` starting at node `i` -/
inductive TPath (s : TState) : Nat → List Nat → Prop
  | leaf {i : Nat} : outEdges s i = [] → TPath s i [i]
  | step {i : Nat} {p : List Nat} (e : TEdge) :
      e ∈ s.edges → e.src = i → TPath s e.dst p → TPath s i (i :: p)

/-- the sequence of a node -/
def nodeSeqT (s : TState) (i : Nat) : List Char := (s.nodes[i]?.map (·.seq)).getD []

/-- the record of a node (none for reference and null nodes) -/
def nodeVarT (s : TState) (i : Nat) : List Var :=
  match s.nodes[i]? with
  | some ⟨_, .var v, _⟩ => [v.toVar]
  | _ => []

/-- the sequence a path spells -/
def pathSeqT (s : TState) (p : List Nat) : List Char := p.flatMap (nodeSeqT s)

/-- the records a path takes, in path order -/
def pathVarsT (s : TState) (p : List Nat) : List Var := p.flatMap (nodeVarT s)

/-- the records that have a variant node in the graph -/
def varPool (s : TState) : List Var :=
  s.nodes.filterMap fun n => match n.kind with
    | .var v => some v.toVar
    | _ => none

theorem mem_varPool {s : TState} {i f : Nat} {v : Rec} (h : IsVar s i f v) : v.toVar ∈ varPool s := by
  obtain ⟨sq, h⟩ := h
  simp only [varPool, List.mem_filterMap]
  exact ⟨_, List.mem_of_getElem? h, rfl⟩

/-- walking over `n` reference bases -/
theorem tvg_walk_refs (t : List Char) (pool : List Var) (w : List Char) (h : List Var) :
    ∀ (n a : Nat) (r : Bool), a + n ≤ t.length → Walk t pool (a + n) true w h → (0 < n ∨ r = true) →
      Walk t pool a r ((t.drop a).take n ++ w) h := by
  intro n
  induction n with
  | zero =>
    intro a r _ hw hr
    rcases hr with hr | hr
    · omega
    · subst hr; simpa using hw
  | succ n ih =>
    intro a r ha hw _
    have hlt : a < t.length := by omega
    have hd : t.drop a = t[a] :: t.drop (a + 1) := List.drop_eq_getElem_cons hlt
    rw [hd, List.take_succ_cons, List.cons_append]
    apply Walk.ref (List.getElem?_eq_getElem hlt)
    apply ih (a + 1) true (by omega) (by rwa [show a + 1 + n = a + (n + 1) by omega]) (Or.inr rfl)

theorem nodeSeqT_ref {t : List Char} {s : TState} (hI : Inv t s) {i f a b : Nat} (h : IsRef s i f a b) :
    nodeSeqT s i = (t.drop a).take (b - a) := by
  obtain ⟨sq, h⟩ := h
  have := hI.nodesOk i _ h
  simp only [NodeOk] at this
  simp [nodeSeqT, h, this.2.2.2.2]

theorem nodeSeqT_var {t : List Char} {s : TState} (hI : Inv t s) {i f : Nat} {v : Rec} (h : IsVar s i f v) :
    nodeSeqT s i = v.alt := by
  obtain ⟨sq, h⟩ := h
  have := hI.nodesOk i _ h
  simp only [NodeOk] at this
  simp [nodeSeqT, h, this.2.1]

theorem nodeVarT_ref {s : TState} {i f a b : Nat} (h : IsRef s i f a b) : nodeVarT s i = [] := by
  obtain ⟨sq, h⟩ := h
  simp [nodeVarT, h]

theorem nodeVarT_var {s : TState} {i f : Nat} {v : Rec} (h : IsVar s i f v) : nodeVarT s i = [v.toVar] := by
  obtain ⟨sq, h⟩ := h
  simp [nodeVarT, h]

/-- **every maximal path is a walk of the position automaton**: from a reference node `[a, b)`
a path is a walk from position `a`; from the variant node of `v` it is a walk that takes `v`
at `v.start` -/
theorem tpath_walk {t : List Char} {s : TState} (hI : Inv t s) (hL : VarLinked t s)
    {i : Nat} {p : List Nat} (hp : TPath s i p) :
    (∀ f a b, IsRef s i f a b → ∀ r, Walk t (varPool s) a r (pathSeqT s p) (pathVarsT s p)) ∧
    (∀ f v, IsVar s i f v → Walk t (varPool s) v.start true (pathSeqT s p) (pathVarsT s p)) := by
  induction hp with
  | @leaf i hout =>
    constructor
    · intro f a b hi r
      have hb := hI.end_of_no_outEdge hi hout
      obtain ⟨_, _, hab, _⟩ := hI.ref_ok hi
      simp only [pathSeqT, pathVarsT, List.flatMap_cons, List.flatMap_nil, nodeSeqT_ref hI hi,
        nodeVarT_ref hi, List.append_nil]
      have := tvg_walk_refs t (varPool s) [] [] (b - a) a r (by omega)
        (Walk.done (by omega)) (Or.inl (by omega))
      simpa using this
    · intro f v hi
      obtain ⟨_, _, hss, hsL⟩ := hI.var_ok hi
      have hstop : t.length ≤ v.stop := by
        rcases Nat.lt_or_ge v.stop t.length with hlt | hge
        · obtain ⟨e, he, h1, _⟩ := (hL i f v hi (by simp)).2 hlt
          have : e ∈ outEdges s i := mem_outEdges.mpr ⟨he, h1⟩
          rw [hout] at this; simp at this
        · exact hge
      simp only [pathSeqT, pathVarsT, List.flatMap_cons, List.flatMap_nil, nodeSeqT_var hI hi,
        nodeVarT_var hi]
      exact Walk.var (v := v.toVar) (mem_varPool hi) hss (Walk.done hstop)
  | @step i p e he hsrc _ ih =>
    have hok := hI.edgeOk e he
    obtain ⟨src, dst, ty⟩ := e
    simp only at hsrc ih; subst hsrc
    constructor
    · intro f a b hi r
      obtain ⟨_, _, hab, hbL⟩ := hI.ref_ok hi
      simp only [pathSeqT, pathVarsT, List.flatMap_cons, nodeSeqT_ref hI hi, nodeVarT_ref hi,
        List.nil_append]
      have key : Walk t (varPool s) b true (pathSeqT s p) (pathVarsT s p) := by
        cases ty <;> simp only [EdgeOk] at hok
        · rcases hok with ⟨f', x, y, z, h1, h2⟩ | ⟨_, _, _, h1, _⟩ | ⟨_, _, h1, _⟩
          · obtain ⟨_, _, rfl⟩ := hi.inj h1
            exact ih.1 _ _ _ h2 true
          · exact (hi.not_null h1).elim
          · exact (hi.not_null h1).elim
        · obtain ⟨f', x, y, v, h1, h2, h3⟩ := hok
          obtain ⟨_, _, rfl⟩ := hi.inj h1
          rw [h3]
          exact ih.2 _ _ h2
        · obtain ⟨_, _, _, _, _, h1, _⟩ := hok
          exact (hi.not_var h1).elim
      exact tvg_walk_refs t (varPool s) _ _ (b - a) a r (by omega)
        (by rwa [show a + (b - a) = b by omega]) (Or.inl (by omega))
    · intro f v hi
      obtain ⟨_, _, hss, _⟩ := hI.var_ok hi
      simp only [pathSeqT, pathVarsT, List.flatMap_cons, nodeSeqT_var hI hi, nodeVarT_var hi,
        List.singleton_append]
      cases ty <;> simp only [EdgeOk] at hok
      · rcases hok with ⟨_, _, _, _, h1, _⟩ | ⟨_, _, _, h1, _⟩ | ⟨_, _, h1, _⟩
        · exact (h1.not_var hi).elim
        · exact (hi.not_null h1).elim
        · exact (hi.not_null h1).elim
      · obtain ⟨_, _, _, _, h1, _, _⟩ := hok
        exact (h1.not_var hi).elim
      · obtain ⟨f', v', g, c, d, h1, h2, h3⟩ := hok
        obtain ⟨_, rfl⟩ := hi.inj h1
        subst h3
        exact Walk.var (v := v.toVar) (mem_varPool hi) hss (ih.1 _ _ _ h2 false)

/-- **soundness of the path language** under the invariant: a maximal path from the reference
node of frame `f` that starts at `f` spells `(applyHap t h).drop f` for the records `h` it
takes, which are records of the graph, ascending and strictly separated -/
theorem tpath_language_sound {t : List Char} {s : TState} (hI : Inv t s) (hL : VarLinked t s)
    {i f b : Nat} (hi : IsRef s i f f b) {p : List Nat} (hp : TPath s i p) :
    (∀ v ∈ pathVarsT s p, v ∈ varPool s) ∧ separated (pathVarsT s p) = true ∧
      pathSeqT s p = (applyHap t (pathVarsT s p)).drop f := by
  obtain ⟨hf, _, hfb, hbL⟩ := hI.ref_ok hi
  have hw := (tpath_walk hI hL hp).1 f f b hi
  -- extend the walk to position 0 over the `f` skipped bases
  have hw0 : Walk t (varPool s) 0 false (t.take f ++ pathSeqT s p) (pathVarsT s p) := by
    rcases Nat.eq_zero_or_pos f with h0 | h0
    · subst h0; simpa using hw false
    · have := tvg_walk_refs t (varPool s) _ _ f 0 false (by omega) (by simpa using hw true) (Or.inl h0)
      simpa using this
  obtain ⟨h1, h2, h3⟩ := walk_sound t (varPool s) 0 false _ _ hw0
  refine ⟨h1, separated_of_sepFrom _ 0 _ h2, ?_⟩
  have h3' : t.take f ++ pathSeqT s p = applyHap t (pathVarsT s p) := by simpa [applyHap] using h3
  rw [← h3', List.drop_append]
  have : (t.take f).length = f := by simp; omega
  simp [this]

end MoPepGen.Tvg
