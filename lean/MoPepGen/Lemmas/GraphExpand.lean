/-
Layer G: what splitting a node does to the language of a graph.

`Expand G G' t a b x`: `G'` is `G` with node `t` cut in two — `t` keeps the first part `a` of its
sequence, a NEW node `r` (index `G.size`) gets the rest `b` and the successors of `t`, and a NEW
leaf `f` (index `G.size + 1`) with sequence `x` hangs on `t` beside `r`.  This is what the final
loop of `ThreeFrameTVG.translate` does with a node that holds an annotated CDS end which is not a
stop codon (`PVGNode.split_node` + the fake stop node).

`expand_language`: from every old node the language of `G'` is the language of `G` plus, for every
walk that reaches `t`, the sequence spelled up to `t` followed by `a ++ x`.
`expand_reach`: the walks to any other old node spell the same sequences in `G'` and `G`.
-/
import MoPepGen.Lemmas.Graph
namespace MoPepGen.Graph
open MoPepGen MoPepGen.Spec

/-- `w` is the sequence of a maximal path from `i` -/
inductive Acc (G : Graph) : Nat → List Char → Prop
  | leaf {i : Nat} : i < G.size → succs G i = [] → Acc G i (nodeSeq G i)
  | step {i o : Nat} {w : List Char} : i < G.size → o ∈ succs G i → Acc G o w →
      Acc G i (nodeSeq G i ++ w)

theorem acc_iff (G : Graph) (i : Nat) (w : List Char) :
    Acc G i w ↔ ∃ p, MaxPath G i p ∧ pathSeq G p = w := by
  constructor
  · intro h
    induction h with
    | leaf hi hs => exact ⟨[_], MaxPath.leaf hi hs, by simp [pathSeq]⟩
    | step hi ho _ ih =>
      obtain ⟨p, hp, rfl⟩ := ih
      exact ⟨_ :: p, MaxPath.step hi ho hp, by simp [pathSeq]⟩
  · rintro ⟨p, hp, rfl⟩
    induction hp with
    | leaf hi hs =>
      have := Acc.leaf hi hs
      simpa [pathSeq] using this
    | step hi ho _ ih =>
      have := Acc.step hi ho ih
      simpa [pathSeq] using this

/-- `u` is the sequence spelled by a walk from `i` up to (excluding) the node `t` -/
inductive Reach (G : Graph) (t : Nat) : Nat → List Char → Prop
  | here : t < G.size → Reach G t t []
  | step {i o : Nat} {u : List Char} : i < G.size → o ∈ succs G i → Reach G t o u →
      Reach G t i (nodeSeq G i ++ u)

structure Expand (G G' : Graph) (t : Nat) (a b x : List Char) : Prop where
  size : G'.size = G.size + 2
  tlt : t < G.size
  /-- successors are old nodes -/
  closed : ∀ i o, o ∈ succs G i → o < G.size
  oldSuccs : ∀ i, i < G.size → i ≠ t → succs G' i = succs G i
  oldSeq : ∀ i, i < G.size → i ≠ t → nodeSeq G' i = nodeSeq G i
  tSuccs : succs G' t = [G.size, G.size + 1]
  tSeq : nodeSeq G' t = a
  rSuccs : succs G' G.size = succs G t
  rSeq : nodeSeq G' G.size = b
  fSuccs : succs G' (G.size + 1) = []
  fSeq : nodeSeq G' (G.size + 1) = x
  cut : a ++ b = nodeSeq G t

namespace Expand
variable {G G' : Graph} {t : Nat} {a b x : List Char}

theorem closed' (h : Expand G G' t a b x) : ∀ i o, o ∈ succs G' i → o < G'.size := by
  intro i o ho
  rw [h.size]
  rcases Nat.lt_or_ge i G.size with hi | hi
  · by_cases hit : i = t
    · subst hit
      rw [h.tSuccs] at ho
      simp at ho; omega
    · rw [h.oldSuccs i hi hit] at ho
      have := h.closed i o ho; omega
  · by_cases hr : i = G.size
    · subst hr
      rw [h.rSuccs] at ho
      have := h.closed _ o ho; omega
    · by_cases hf : i = G.size + 1
      · subst hf; rw [h.fSuccs] at ho; cases ho
      · -- outside the graph: no successors
        have : G'.size ≤ i := by rw [h.size]; omega
        simp [succs, Array.getElem?_eq_none this] at ho

theorem acc_f (h : Expand G G' t a b x) {w : List Char} (hw : Acc G' (G.size + 1) w) : w = x := by
  cases hw with
  | leaf _ _ => exact h.fSeq
  | step _ ho _ => rw [h.fSuccs] at ho; cases ho

theorem acc_f' (h : Expand G G' t a b x) : Acc G' (G.size + 1) x := by
  have := Acc.leaf (G := G') (i := G.size + 1) (by rw [h.size]; omega) h.fSuccs
  rwa [h.fSeq] at this

/-- the language of the old graph, or a walk to `t` followed by the cut-off end -/
def Q (G : Graph) (t : Nat) (a x : List Char) (j : Nat) (w : List Char) : Prop :=
  Acc G j w ∨ ∃ u, Reach G t j u ∧ w = u ++ a ++ x

theorem Q_step {j o : Nat} {w : List Char} (hj : j < G.size) (ho : o ∈ succs G j)
    (hq : Q G t a x o w) : Q G t a x j (nodeSeq G j ++ w) := by
  rcases hq with hq | ⟨u, hu, rfl⟩
  · exact Or.inl (Acc.step hj ho hq)
  · exact Or.inr ⟨_, Reach.step hj ho hu, by simp [List.append_assoc]⟩

theorem language_sound (h : Expand G G' t a b x) {j : Nat} {w : List Char} (hw : Acc G' j w) :
    (j < G.size → Q G t a x j w) ∧ (j = G.size → Q G t a x t (a ++ w)) := by
  induction hw with
  | @leaf j hj hs =>
    constructor
    · intro hjo
      by_cases hjt : j = t
      · subst hjt; rw [h.tSuccs] at hs; cases hs
      · rw [h.oldSuccs j hjo hjt] at hs
        rw [h.oldSeq j hjo hjt]
        exact Or.inl (Acc.leaf hjo hs)
    · intro hjr
      subst hjr
      rw [h.rSuccs] at hs
      rw [h.rSeq, h.cut]
      exact Or.inl (Acc.leaf h.tlt hs)
  | @step j o w hj ho hacc ih =>
    constructor
    · intro hjo
      by_cases hjt : j = t
      · subst hjt
        rw [h.tSuccs] at ho
        rw [h.tSeq]
        simp only [List.mem_cons, List.not_mem_nil, or_false] at ho
        rcases ho with rfl | rfl
        · exact ih.2 rfl
        · rw [h.acc_f hacc]
          exact Or.inr ⟨[], Reach.here h.tlt, by simp⟩
      · rw [h.oldSuccs j hjo hjt] at ho
        rw [h.oldSeq j hjo hjt]
        exact Q_step hjo ho (ih.1 (h.closed j o ho))
    · intro hjr
      subst hjr
      rw [h.rSuccs] at ho
      rw [h.rSeq, ← List.append_assoc, h.cut]
      exact Q_step h.tlt ho (ih.1 (h.closed t o ho))

theorem acc_lift (h : Expand G G' t a b x) {j : Nat} {w : List Char} (hw : Acc G j w) : Acc G' j w := by
  induction hw with
  | @leaf j hj hs =>
    by_cases hjt : j = t
    · subst hjt
      have hr : Acc G' G.size b := by
        have := Acc.leaf (G := G') (i := G.size) (by rw [h.size]; omega) (by rw [h.rSuccs]; exact hs)
        rwa [h.rSeq] at this
      have := Acc.step (G := G') (i := j) (by rw [h.size]; omega) (by rw [h.tSuccs]; simp) hr
      rwa [h.tSeq, h.cut] at this
    · have := Acc.leaf (G := G') (i := j) (by rw [h.size]; omega) (by rw [h.oldSuccs j hj hjt]; exact hs)
      rwa [h.oldSeq j hj hjt] at this
  | @step j o w hj ho _ ih =>
    by_cases hjt : j = t
    · subst hjt
      have hr : Acc G' G.size (b ++ w) := by
        have := Acc.step (G := G') (i := G.size) (by rw [h.size]; omega) (by rw [h.rSuccs]; exact ho) ih
        rwa [h.rSeq] at this
      have := Acc.step (G := G') (i := j) (by rw [h.size]; omega) (by rw [h.tSuccs]; simp) hr
      rwa [h.tSeq, ← List.append_assoc, h.cut] at this
    · have := Acc.step (G := G') (i := j) (by rw [h.size]; omega)
        (by rw [h.oldSuccs j hj hjt]; exact ho) ih
      rwa [h.oldSeq j hj hjt] at this

theorem reach_end (h : Expand G G' t a b x) {j : Nat} {u : List Char} (hu : Reach G t j u) :
    Acc G' j (u ++ a ++ x) := by
  induction hu with
  | here ht =>
    have := Acc.step (G := G') (i := t) (by rw [h.size]; omega) (by rw [h.tSuccs]; simp) h.acc_f'
    rw [h.tSeq] at this
    simpa using this
  | @step j o u hj ho _ ih =>
    by_cases hjt : j = t
    · subst hjt
      have hr : Acc G' G.size (b ++ (u ++ a ++ x)) := by
        have := Acc.step (G := G') (i := G.size) (by rw [h.size]; omega) (by rw [h.rSuccs]; exact ho) ih
        rwa [h.rSeq] at this
      have := Acc.step (G := G') (i := j) (by rw [h.size]; omega) (by rw [h.tSuccs]; simp) hr
      rw [h.tSeq, ← List.append_assoc, h.cut] at this
      simpa [List.append_assoc] using this
    · have := Acc.step (G := G') (i := j) (by rw [h.size]; omega)
        (by rw [h.oldSuccs j hj hjt]; exact ho) ih
      rw [h.oldSeq j hj hjt] at this
      simpa [List.append_assoc] using this

/-- the language of the expanded graph from an old node -/
theorem language (h : Expand G G' t a b x) {j : Nat} (hj : j < G.size) (w : List Char) :
    Acc G' j w ↔ Acc G j w ∨ ∃ u, Reach G t j u ∧ w = u ++ a ++ x := by
  constructor
  · intro hw; exact (h.language_sound hw).1 hj
  · rintro (hw | ⟨u, hu, rfl⟩)
    · exact h.acc_lift hw
    · exact h.reach_end hu

theorem reach_f (h : Expand G G' t a b x) {t2 : Nat} (ht2 : t2 < G.size) {u : List Char}
    (hu : Reach G' t2 (G.size + 1) u) : False := by
  cases hu with
  | here _ => omega
  | step _ ho _ => rw [h.fSuccs] at ho; cases ho

theorem reach_sound (h : Expand G G' t a b x) {t2 : Nat} (ht2 : t2 < G.size)
    {j : Nat} {u : List Char} (hu : Reach G' t2 j u) :
    (j < G.size → Reach G t2 j u) ∧ (j = G.size → Reach G t2 t (a ++ u)) := by
  induction hu with
  | here _ => exact ⟨fun _ => Reach.here ht2, fun hc => by omega⟩
  | @step j o u hj ho hr ih =>
    constructor
    · intro hjo
      by_cases hjt : j = t
      · subst hjt
        rw [h.tSuccs] at ho
        rw [h.tSeq]
        simp only [List.mem_cons, List.not_mem_nil, or_false] at ho
        rcases ho with rfl | rfl
        · exact ih.2 rfl
        · exact (h.reach_f ht2 hr).elim
      · rw [h.oldSuccs j hjo hjt] at ho
        rw [h.oldSeq j hjo hjt]
        exact Reach.step hjo ho (ih.1 (h.closed j o ho))
    · intro hjr
      subst hjr
      rw [h.rSuccs] at ho
      rw [h.rSeq, ← List.append_assoc, h.cut]
      exact Reach.step h.tlt ho (ih.1 (h.closed t o ho))

theorem reach_lift (h : Expand G G' t a b x) {t2 : Nat} (ht2 : t2 < G.size)
    {j : Nat} {u : List Char} (hu : Reach G t2 j u) : Reach G' t2 j u := by
  induction hu with
  | here _ => exact Reach.here (by rw [h.size]; omega)
  | @step j o u hj ho _ ih =>
    by_cases hjt : j = t
    · subst hjt
      have hr : Reach G' t2 G.size (b ++ u) := by
        have := Reach.step (G := G') (i := G.size) (by rw [h.size]; omega) (by rw [h.rSuccs]; exact ho) ih
        rwa [h.rSeq] at this
      have := Reach.step (G := G') (i := j) (by rw [h.size]; omega) (by rw [h.tSuccs]; simp) hr
      rwa [h.tSeq, ← List.append_assoc, h.cut] at this
    · have := Reach.step (G := G') (i := j) (by rw [h.size]; omega)
        (by rw [h.oldSuccs j hj hjt]; exact ho) ih
      rwa [h.oldSeq j hj hjt] at this

/-- walks to an old node spell the same sequences before and after the expansion -/
theorem reach (h : Expand G G' t a b x) {t2 j : Nat} (ht2 : t2 < G.size) (hj : j < G.size)
    (u : List Char) : Reach G' t2 j u ↔ Reach G t2 j u :=
  ⟨fun hu => (h.reach_sound ht2 hu).1 hj, fun hu => h.reach_lift ht2 hu⟩

end Expand

/-- the nodes of a walk from `i` up to (excluding) the node `t` -/
inductive NWalk (G : Graph) (t : Nat) : Nat → List Nat → Prop
  | here : t < G.size → NWalk G t t []
  | step {i o : Nat} {p : List Nat} : i < G.size → o ∈ succs G i → NWalk G t o p → NWalk G t i (i :: p)

theorem reach_iff_walk (G : Graph) (t i : Nat) (u : List Char) :
    Reach G t i u ↔ ∃ p, NWalk G t i p ∧ u = pathSeq G p := by
  constructor
  · intro h
    induction h with
    | here ht => exact ⟨[], NWalk.here ht, by simp [pathSeq]⟩
    | step hi ho _ ih =>
      obtain ⟨p, hp, rfl⟩ := ih
      exact ⟨_ :: p, NWalk.step hi ho hp, by simp [pathSeq]⟩
  · rintro ⟨p, hp, rfl⟩
    induction hp with
    | here ht => simpa [pathSeq] using Reach.here ht
    | step hi ho _ ih =>
      have := Reach.step hi ho ih
      simpa [pathSeq] using this

/-- a chain of expansions, one per listed node `t` with the kept part `a` of its sequence -/
inductive Expands (x : List Char) : Graph → List (Nat × List Char) → Graph → Prop
  | nil {G : Graph} : Expands x G [] G
  | cons {G G1 G2 : Graph} {t : Nat} {a b : List Char} {rest : List (Nat × List Char)} :
      Expand G G1 t a b x → Expands x G1 rest G2 → Expands x G ((t, a) :: rest) G2

/-- the language after a chain of expansions of old nodes: the old language plus, for every
listed node and every walk that reaches it, the sequence up to it followed by its kept part and
the new leaf -/
theorem Expands.language {x : List Char} {G G2 : Graph} {T : List (Nat × List Char)}
    (h : Expands x G T G2) : (∀ ta ∈ T, ta.1 < G.size) → ∀ j, j < G.size → ∀ w,
      (Acc G2 j w ↔ Acc G j w ∨ ∃ ta ∈ T, ∃ u, Reach G ta.1 j u ∧ w = u ++ ta.2 ++ x) := by
  induction h with
  | nil => intro _ j _ w; simp
  | @cons G G1 G2 t a b rest he _ ih =>
    intro hT j hj w
    have hsz : G1.size = G.size + 2 := he.size
    have hT1 : ∀ ta ∈ rest, ta.1 < G1.size := by
      intro ta hta; have := hT ta (List.mem_cons_of_mem _ hta); omega
    rw [ih hT1 j (by omega) w, he.language hj w]
    constructor
    · rintro ((hw | ⟨u, hu, rfl⟩) | ⟨ta, hta, u, hu, rfl⟩)
      · exact Or.inl hw
      · exact Or.inr ⟨(t, a), by simp, u, hu, rfl⟩
      · exact Or.inr ⟨ta, List.mem_cons_of_mem _ hta, u,
          (he.reach (hT ta (List.mem_cons_of_mem _ hta)) hj u).mp hu, rfl⟩
    · rintro (hw | ⟨ta, hta, u, hu, rfl⟩)
      · exact Or.inl (Or.inl hw)
      · rcases List.mem_cons.mp hta with rfl | hta
        · exact Or.inl (Or.inr ⟨u, hu, rfl⟩)
        · exact Or.inr ⟨ta, hta, u, (he.reach (hT ta (List.mem_cons_of_mem _ hta)) hj u).mpr hu, rfl⟩

end MoPepGen.Graph
