import MoPepGen.Model.Circ
import MoPepGen.Lemmas.Seq
/-! Helper lemmas for C17: block ↔ fragment conversion, slices of the gene sequence,
sorting of fragments. -/
namespace MoPepGen

/-! ## specification side -/

/-- strand-corrected gene-coordinate interval of a chromosome interval (Layer S) -/
def geneIv (g : Gene) (b : Iv) : Iv :=
  match g.strand with
  | .plus => ⟨b.start - g.loc.start, b.stop - g.loc.start⟩
  | .minus => ⟨g.loc.stop - b.stop, g.loc.stop - b.start⟩

/-- the interval lies inside the gene (possibly empty) -/
def InGene (g : Gene) (b : Iv) : Prop :=
  g.loc.start ≤ b.start ∧ b.start ≤ b.stop ∧ b.stop ≤ g.loc.stop
instance (g : Gene) (b : Iv) : Decidable (InGene g b) := by unfold InGene; infer_instance

/-- concatenation of the reported genomic blocks in transcript orientation (Layer S):
on the minus strand the reverse complement of the genomic-order concatenation, i.e. the blocks in
reverse order, each reverse-complemented -/
def circSeqSpec (chrom : List Char) (s : Strand) (blocks : List Iv) : List Char :=
  match s with
  | .plus => exonConcat chrom blocks
  | .minus => revComp (exonConcat chrom blocks)

/-- blocks ascending along the chromosome and non-overlapping -/
def AscBlocks (bs : List Iv) : Prop := bs.Pairwise (fun a b => a.stop ≤ b.start)
instance (bs : List Iv) : Decidable (AscBlocks bs) := by unfold AscBlocks; infer_instance

/-! ## span → gene -/

theorem spanToGene_ok {g : Gene} {lo hi : Nat} {f : Iv}
    (h : spanToGene g g.strand lo hi = .ok f) (hle : lo ≤ hi) :
    f = geneIv g ⟨lo, hi⟩ ∧ g.loc.start ≤ lo ∧ hi ≤ g.loc.stop := by
  unfold spanToGene genomicToGeneZ genomicToGene orientIv at h
  unfold geneIv
  by_cases h1 : g.loc.start ≤ lo ∧ lo < g.loc.stop
  · rw [if_pos h1] at h
    by_cases h2 : (hi : Int) - 1 < 0
    · cases hs : g.strand <;> simp [hs, h2] at h
    · have h2' : ((hi : Int) - 1).toNat = hi - 1 := by omega
      by_cases h3 : g.loc.start ≤ hi - 1 ∧ hi - 1 < g.loc.stop
      · cases hs : g.strand
        · simp only [hs, h2, if_false, h2', if_pos h3] at h
          split at h
          · cases h
          · simp only [Except.ok.injEq] at h; subst h
            simp only
            refine ⟨?_, by omega, by omega⟩
            congr 1; omega
        · simp only [hs, h2, if_false, h2', if_pos h3] at h
          split at h
          · cases h
          · simp only [Except.ok.injEq] at h; subst h
            simp only
            refine ⟨?_, by omega, by omega⟩
            congr 1 <;> omega
      · cases hs : g.strand <;> simp [hs, h2, h2', h3] at h
  · cases hs : g.strand <;> simp [h1] at h

theorem spanToGene_of_inGene {g : Gene} {lo hi : Nat} (hlt : lo < hi)
    (hin : InGene g ⟨lo, hi⟩) : spanToGene g g.strand lo hi = .ok (geneIv g ⟨lo, hi⟩) := by
  obtain ⟨h1, _, h3⟩ := hin
  simp only at h1 h3
  unfold spanToGene genomicToGeneZ genomicToGene orientIv geneIv
  have h2 : ¬ ((hi : Int) - 1 < 0) := by omega
  have h2' : ((hi : Int) - 1).toNat = hi - 1 := by omega
  rw [if_pos (by omega : g.loc.start ≤ lo ∧ lo < g.loc.stop)]
  cases hs : g.strand
  · simp only [if_neg h2, h2', if_pos (by omega : g.loc.start ≤ hi - 1 ∧ hi - 1 < g.loc.stop)]
    rw [if_neg (by first | omega | (dsimp only; omega))]
    congr 2; omega
  · simp only [if_neg h2, h2', if_pos (by omega : g.loc.start ≤ hi - 1 ∧ hi - 1 < g.loc.stop)]
    rw [if_neg (by first | omega | (dsimp only; omega))]
    congr 2 <;> omega

/-- a span that is not inside the gene raises `ValueError` (class out-of-range) -/
theorem spanToGene_outside {g : Gene} {lo hi : Nat} (hlt : lo < hi)
    (hout : ¬ InGene g ⟨lo, hi⟩) : spanToGene g g.strand lo hi = .error .outOfRange := by
  unfold InGene at hout
  simp only at hout
  unfold spanToGene genomicToGeneZ genomicToGene
  by_cases h1 : g.loc.start ≤ lo ∧ lo < g.loc.stop
  · rw [if_pos h1]
    have h2 : ¬ ((hi : Int) - 1 < 0) := by omega
    have h2' : ((hi : Int) - 1).toNat = hi - 1 := by omega
    have h3 : ¬ (g.loc.start ≤ hi - 1 ∧ hi - 1 < g.loc.stop) := by omega
    cases hs : g.strand <;> simp [h2, h2', h3]
  · rw [if_neg h1]

/-! ## gene → genomic feature conversion is the inverse on intervals inside the gene -/

theorem featGeneToGenomic_geneIv {g : Gene} {b : Iv} (hin : InGene g b) :
    featGeneToGenomic g (geneIv g b) = .ok b := by
  obtain ⟨h1, h2, h3⟩ := hin
  unfold featGeneToGenomic geneToGenomicZ geneIv
  cases hs : g.strand
  · simp only
    rw [if_neg (by omega), if_neg (by omega)]
    congr 1
    cases b; simp only at *; congr 1 <;> omega
  · simp only
    rw [if_neg (by omega), if_neg (by omega)]
    congr 1
    cases b; simp only at *; congr 1 <;> omega

/-- the branch of `featGeneToGenomic` that is not faithful to Biopython (negative start) is
never taken by `convert_to_circ_rna` : the fragment handed to the look-up converts back to the
reported block -/
theorem featGeneToGenomic_spanToGene {g : Gene} {lo hi : Nat} {f : Iv}
    (h : spanToGene g g.strand lo hi = .ok f) (hle : lo ≤ hi) :
    featGeneToGenomic g f = .ok ⟨lo, hi⟩ := by
  obtain ⟨rfl, h1, h2⟩ := spanToGene_ok h hle
  exact featGeneToGenomic_geneIv ⟨h1, hle, h2⟩

theorem geneIv_len (g : Gene) {b : Iv} (hin : InGene g b) : (geneIv g b).len = b.len := by
  obtain ⟨h1, h2, h3⟩ := hin
  unfold geneIv Iv.len
  cases g.strand <;> simp only <;> omega

/-! ## slices of the gene sequence -/

theorem chromSlice_length_le (chrom : List Char) (e : Iv) :
    (chromSlice chrom e).length ≤ e.stop - e.start := by
  simp only [chromSlice, List.length_take]; omega

/-- reading the fragment of a block from the gene sequence gives the block read from the
chromosome in the orientation of the gene -/
theorem geneSeq_slice {chrom : List Char} {g : Gene} {b : Iv}
    (hc : g.loc.stop ≤ chrom.length) (hin : InGene g b) :
    chromSlice (geneSeq chrom g) (geneIv g b) =
      match g.strand with
      | .plus => chromSlice chrom b
      | .minus => revComp (chromSlice chrom b) := by
  obtain ⟨h1, h2, h3⟩ := hin
  have hbl : (chromSlice chrom b).length = b.stop - b.start := chromSlice_length (by omega)
  unfold geneSeq geneIv
  cases hs : g.strand
  · simp only
    apply List.ext_getElem?
    intro i
    by_cases hi : i < b.stop - b.start
    · rw [chromSlice_getElem? (by simp only; omega), chromSlice_getElem? (by simp only; omega),
        chromSlice_getElem? hi]
      simp only; congr 1; omega
    · rw [List.getElem?_eq_none (by
          have := chromSlice_length_le (chromSlice chrom g.loc)
            ⟨b.start - g.loc.start, b.stop - g.loc.start⟩
          simp only at this; omega),
        List.getElem?_eq_none (by omega)]
  · simp only
    apply List.ext_getElem?
    intro i
    by_cases hi : i < b.stop - b.start
    · rw [chromSlice_getElem? (by simp only; omega),
        revComp_chromSlice_getElem? hc (by simp only; omega),
        revComp_chromSlice_getElem? (by omega) hi]
      simp only; congr 2; omega
    · rw [List.getElem?_eq_none (by
          have := chromSlice_length_le (revComp (chromSlice chrom g.loc))
            ⟨g.loc.stop - b.stop, g.loc.stop - b.start⟩
          simp only at this; omega),
        List.getElem?_eq_none (by rw [revComp_length]; omega)]

/-- plus strand: the fragments of ascending blocks, read from the gene sequence in list order -/
theorem exonConcat_geneSeq_plus {chrom : List Char} {g : Gene} (hs : g.strand = .plus)
    (hc : g.loc.stop ≤ chrom.length) {bs : List Iv} (hin : ∀ b ∈ bs, InGene g b) :
    exonConcat (geneSeq chrom g) (bs.map (geneIv g)) = exonConcat chrom bs := by
  induction bs with
  | nil => rfl
  | cons b bs ih =>
    simp only [List.map_cons, exonConcat]
    rw [geneSeq_slice hc (hin b List.mem_cons_self), hs,
      ih (fun x hx => hin x (List.mem_cons_of_mem _ hx))]

/-- minus strand: the same list read from the gene sequence is the concatenation of the
reverse-complemented blocks -/
theorem exonConcat_geneSeq_minus {chrom : List Char} {g : Gene} (hs : g.strand = .minus)
    (hc : g.loc.stop ≤ chrom.length) {bs : List Iv} (hin : ∀ b ∈ bs, InGene g b) :
    exonConcat (geneSeq chrom g) (bs.map (geneIv g)) = minusConcat chrom bs := by
  induction bs with
  | nil => rfl
  | cons b bs ih =>
    simp only [List.map_cons, exonConcat, minusConcat]
    rw [geneSeq_slice hc (hin b List.mem_cons_self), hs,
      ih (fun x hx => hin x (List.mem_cons_of_mem _ hx))]

/-! ## sorting fragments -/

theorem Iv.le_iff {a b : Iv} :
    Iv.le a b = true ↔ a.start < b.start ∨ (a.start = b.start ∧ a.stop ≤ b.stop) := by
  unfold Iv.le Iv.lt Iv.gt
  cases a with | mk a1 a2 => cases b with | mk b1 b2 =>
  simp only [Bool.not_not, Bool.or_eq_true, Bool.and_eq_true, decide_eq_true_eq, Iv.mk.injEq]
  omega

theorem Iv.le_trans (a b c : Iv) : Iv.le a b = true → Iv.le b c = true → Iv.le a c = true := by
  simp only [Iv.le_iff]; omega

theorem Iv.le_total (a b : Iv) : (Iv.le a b || Iv.le b a) = true := by
  simp only [Bool.or_eq_true, Iv.le_iff]; omega

theorem Iv.le_antisymm (a b : Iv) : Iv.le a b = true → Iv.le b a = true → a = b := by
  simp only [Iv.le_iff]
  cases a; cases b; simp only [Iv.mk.injEq]; omega

/-- `sorted` returns the unique ascending arrangement -/
theorem sortFragments_eq_of_perm {fs l : List Iv} (hp : l.Perm fs)
    (hl : l.Pairwise (fun a b => Iv.le a b = true)) : sortFragments fs = l := by
  unfold sortFragments
  apply List.Perm.eq_of_pairwise (le := fun a b => Iv.le a b = true)
  · intro a b _ _ h1 h2; exact Iv.le_antisymm a b h1 h2
  · exact List.pairwise_mergeSort Iv.le_trans Iv.le_total fs
  · exact hl
  · exact (List.mergeSort_perm fs Iv.le).trans hp.symm

/-- gene-coordinate fragments of ascending blocks are ascending on the plus strand … -/
theorem geneIv_pairwise_plus {g : Gene} (hs : g.strand = .plus) {bs : List Iv}
    (hin : ∀ b ∈ bs, InGene g b) (hasc : AscBlocks bs) :
    (bs.map (geneIv g)).Pairwise (fun a b => Iv.le a b = true) := by
  unfold AscBlocks at hasc
  rw [List.pairwise_map]
  refine List.Pairwise.imp_of_mem ?_ hasc
  intro a b ha hb hab
  obtain ⟨a1, a2, a3⟩ := hin a ha
  obtain ⟨b1, b2, b3⟩ := hin b hb
  rw [Iv.le_iff]; unfold geneIv; rw [hs]; simp only; omega

/-- … and descending on the minus strand -/
theorem geneIv_pairwise_minus {g : Gene} (hs : g.strand = .minus) {bs : List Iv}
    (hin : ∀ b ∈ bs, InGene g b) (hasc : AscBlocks bs) :
    (bs.map (geneIv g)).Pairwise (fun a b => Iv.le b a = true) := by
  unfold AscBlocks at hasc
  rw [List.pairwise_map]
  refine List.Pairwise.imp_of_mem ?_ hasc
  intro a b ha hb hab
  obtain ⟨a1, a2, a3⟩ := hin a ha
  obtain ⟨b1, b2, b3⟩ := hin b hb
  rw [Iv.le_iff]; unfold geneIv; rw [hs]; simp only; omega

/-- `sorted(fragments)` = the fragments in transcript (5'→3') order -/
theorem sortFragments_geneIv {g : Gene} {bs : List Iv}
    (hin : ∀ b ∈ bs, InGene g b) (hasc : AscBlocks bs) :
    sortFragments (bs.map (geneIv g)) =
      match g.strand with
      | .plus => bs.map (geneIv g)
      | .minus => (bs.reverse).map (geneIv g) := by
  cases hs : g.strand
  · exact sortFragments_eq_of_perm (List.Perm.refl _) (geneIv_pairwise_plus hs hin hasc)
  · simp only
    apply sortFragments_eq_of_perm
    · rw [List.map_reverse]; exact List.reverse_perm _
    · rw [List.map_reverse, List.pairwise_reverse]
      exact geneIv_pairwise_minus hs hin hasc

/-! ## the block loop -/

theorem blocksOf_length_le (start : Nat) (ss os : List Nat) :
    (blocksOf start ss os).length ≤ ss.length := by
  induction ss generalizing os with
  | nil => simp [blocksOf]
  | cons s ss ih =>
    cases os with
    | nil => simp [blocksOf]
    | cons o os => simp only [blocksOf, List.length_cons]; have := ih os; omega

/-- What a successful run of the block loop returns: one fragment per size, fragment `j` is the
strand-corrected block `j`, every block lies inside the gene, `ids[j]` is the result of the
look-up on block `j` itself, `intron` lists the block indices (ciRNA) or is empty. -/
theorem convertBlocks_ok {g : Gene} {t : Transcript} (hst : t.strand = g.strand)
    {isCi : Bool} {rs re : Int × Int} {start : Nat} {offsets : List Nat} :
    ∀ {sizes : List Nat} {i : Nat} {acc : BlockAcc},
    convertBlocks g t isCi rs re start offsets sizes i = .ok acc →
    let bs := blocksOf start sizes (offsets.drop i)
    bs.length = sizes.length ∧
    acc.fragments = bs.map (geneIv g) ∧
    (∀ b ∈ bs, InGene g b) ∧
    acc.ids.length = bs.length ∧
    (∀ (j : Nat) (b : Iv) (k : Nat), bs[j]? = some b → acc.ids[j]? = some k →
      (if isCi then findIntronIndex t b rs re else findExonIndex t b) = .ok k) ∧
    acc.intron = (if isCi then (List.range sizes.length).map (· + i) else []) := by
  intro sizes
  induction sizes with
  | nil =>
    intro i acc h
    simp only [convertBlocks, Except.ok.injEq] at h; subst h
    simp [blocksOf]
  | cons size rest ih =>
    intro i acc h
    unfold convertBlocks at h
    cases ho : offsets[i]? with
    | none => simp [ho] at h
    | some off =>
      have hdrop : offsets.drop i = off :: offsets.drop (i + 1) := by
        have hi : i < offsets.length := by
          rcases Nat.lt_or_ge i offsets.length with h' | h'
          · exact h'
          · rw [List.getElem?_eq_none h'] at ho; cases ho
        rw [List.getElem?_eq_getElem hi] at ho
        simp only [Option.some.injEq] at ho
        rw [← ho]; exact List.drop_eq_getElem_cons hi
      simp only [ho] at h
      cases hf : blockToFragment g t.strand start off size with
      | error e => simp [hf] at h
      | ok frag =>
        simp only [hf] at h
        cases hl : lookupFragment g t isCi rs re frag with
        | error e => simp [hl] at h
        | ok k =>
          simp only [hl] at h
          cases hr : convertBlocks g t isCi rs re start offsets rest (i + 1) with
          | error e => simp [hr] at h
          | ok acc' =>
            simp only [hr, Except.ok.injEq] at h; subst h
            obtain ⟨l1, l2, l3, l4, l5, l6⟩ := ih hr
            unfold blockToFragment at hf
            rw [hst] at hf
            obtain ⟨hfe, hg1, hg2⟩ := spanToGene_ok hf (by omega)
            have hin : InGene g ⟨start + off, start + off + size⟩ :=
              ⟨hg1, by simp only; omega, hg2⟩
            have hlk : (if isCi then findIntronIndex t ⟨start + off, start + off + size⟩ rs re
                else findExonIndex t ⟨start + off, start + off + size⟩) = .ok k := by
              unfold lookupFragment at hl
              rw [hfe, featGeneToGenomic_geneIv hin] at hl
              exact hl
            simp only [hdrop, blocksOf, List.length_cons, List.map_cons]
            refine ⟨by rw [l1], by rw [l2, hfe], ?_, by rw [l4], ?_, ?_⟩
            · intro b hb
              rcases List.mem_cons.mp hb with rfl | hb
              · exact hin
              · exact l3 b hb
            · intro j b k' hb hk
              cases j with
              | zero =>
                simp only [List.getElem?_cons_zero, Option.some.injEq] at hb hk
                subst hb; subst hk; exact hlk
              | succ j =>
                simp only [List.getElem?_cons_succ] at hb hk
                exact l5 j b k' hb hk
            · rw [l6]
              cases isCi
              · simp
              · simp only [if_true, List.range_succ_eq_map, List.map_cons, List.map_map]
                congr 1
                · simp
                · apply List.map_congr_left; intro a _; simp only [Function.comp]; omega

/-! ## `find_intron_index` -/

/-- plus-strand loop of `find_intron_index`, exact characterisation for arbitrary exon lists and
tolerance ranges: it returns `i + j` iff exon `j` is the FIRST exon whose end is within the start
range of the feature start, no earlier exon starts beyond the feature end (early `break`), a
next exon exists, and the feature end is within the end range of the next exon's start or the
feature ends before it. -/
theorem findIntronPlus_spec (f : Iv) (rs re : Int × Int) :
    ∀ (es : List Iv) (i k : Nat), findIntronPlus f rs re es i = .ok k ↔
      ∃ (j : Nat) (e e2 : Iv), k = i + j ∧ es[j]? = some e ∧ es[j + 1]? = some e2 ∧
        inRange ((f.start : Int) - e.stop) rs = true ∧
        (inRange ((f.stop : Int) - e2.start) re = true ∨ e2.start ≥ f.stop) ∧
        ∀ (j' : Nat) (e' : Iv), j' < j → es[j']? = some e' →
          inRange ((f.start : Int) - e'.stop) rs = false ∧ e'.start ≤ f.stop := by
  intro es
  induction es with
  | nil => intro i k; simp [findIntronPlus]
  | cons e es ih =>
    intro i k
    unfold findIntronPlus
    by_cases h1 : inRange ((f.start : Int) - e.stop) rs = true
    · rw [if_pos h1]
      have hj0 : ∀ (j : Nat), (∀ (j' : Nat) (e' : Iv), j' < j → (e :: es)[j']? = some e' →
          inRange ((f.start : Int) - e'.stop) rs = false ∧ e'.start ≤ f.stop) → j = 0 := by
        intro j hj
        cases j with
        | zero => rfl
        | succ j =>
          have := (hj 0 e (by omega) (by simp)).1
          rw [h1] at this; cases this
      cases es with
      | nil =>
        simp only [reduceCtorEq, false_iff]
        rintro ⟨j, e', e2, _, _, h3, _, _, h6⟩
        have := hj0 j h6; subst this
        simp at h3
      | cons e2 es' =>
        simp only
        constructor
        · intro h
          refine ⟨0, e, e2, ?_, by simp, by simp, h1, ?_, by intro j' e' hj'; omega⟩
          · split at h
            · cases h; rfl
            · split at h
              · cases h; rfl
              · cases h
          · by_cases c1 : inRange ((f.stop : Int) - e2.start) re = true
            · exact Or.inl c1
            · rw [if_neg c1] at h
              by_cases c2 : e2.start ≥ f.stop
              · exact Or.inr c2
              · rw [if_neg c2] at h; cases h
        · rintro ⟨j, e', e2', hk, h2, h3, _, h5, h6⟩
          have := hj0 j h6; subst this
          simp only [List.getElem?_cons_zero, Option.some.injEq, Nat.zero_add,
            List.getElem?_cons_succ] at h2 h3
          subst h2; subst h3
          rcases h5 with c1 | c2
          · rw [if_pos c1]; simp [hk]
          · by_cases c1 : inRange ((f.stop : Int) - e2.start) re = true
            · rw [if_pos c1]; simp [hk]
            · rw [if_neg c1, if_pos c2]; simp [hk]
    · rw [if_neg h1]
      have h1' : inRange ((f.start : Int) - e.stop) rs = false := by simpa using h1
      by_cases h2 : e.start > f.stop
      · rw [if_pos h2]
        simp only [reduceCtorEq, false_iff]
        rintro ⟨j, e', e2, _, hj, _, hr, _, h6⟩
        cases j with
        | zero =>
          simp only [List.getElem?_cons_zero, Option.some.injEq] at hj; subst hj
          exact h1 hr
        | succ j =>
          have := (h6 0 e (by omega) (by simp)).2
          omega
      · rw [if_neg h2, ih]
        constructor
        · rintro ⟨j, e', e2, hk, a1, a2, a3, a4, a5⟩
          refine ⟨j + 1, e', e2, by omega, by simpa using a1, by simpa using a2, a3, a4, ?_⟩
          intro j' e'' hj' he
          cases j' with
          | zero =>
            simp only [List.getElem?_cons_zero, Option.some.injEq] at he; subst he
            exact ⟨h1', by omega⟩
          | succ j' => exact a5 j' e'' (by omega) (by simpa using he)
        · rintro ⟨j, e', e2, hk, a1, a2, a3, a4, a5⟩
          cases j with
          | zero =>
            simp only [List.getElem?_cons_zero, Option.some.injEq] at a1; subst a1
            exact absurd a3 h1
          | succ j =>
            refine ⟨j, e', e2, by omega, by simpa using a1, by simpa using a2, a3, a4, ?_⟩
            intro j' e'' hj' he
            exact a5 (j' + 1) e'' (by omega) (by simpa using he)

/-- minus-strand loop of `find_intron_index` (over the reversed exon list, `i` counting down):
the mirror image of `findIntronPlus_spec` -/
theorem findIntronMinus_spec (f : Iv) (rs re : Int × Int) :
    ∀ (es : List Iv) (i k : Nat), findIntronMinus f rs re es i = .ok k ↔
      ∃ (j : Nat) (e e2 : Iv), k = i - j ∧ es[j]? = some e ∧ es[j + 1]? = some e2 ∧
        inRange (-((f.stop : Int) - e.start)) rs = true ∧
        (inRange (-((f.start : Int) - e2.stop)) re = true ∨ e2.stop ≤ f.start) ∧
        ∀ (j' : Nat) (e' : Iv), j' < j → es[j']? = some e' →
          inRange (-((f.stop : Int) - e'.start)) rs = false ∧ e'.stop ≥ f.start := by
  intro es
  induction es with
  | nil => intro i k; simp [findIntronMinus]
  | cons e es ih =>
    intro i k
    unfold findIntronMinus
    by_cases h1 : inRange (-((f.stop : Int) - e.start)) rs = true
    · rw [if_pos h1]
      have hj0 : ∀ (j : Nat), (∀ (j' : Nat) (e' : Iv), j' < j → (e :: es)[j']? = some e' →
          inRange (-((f.stop : Int) - e'.start)) rs = false ∧ e'.stop ≥ f.start) → j = 0 := by
        intro j hj
        cases j with
        | zero => rfl
        | succ j =>
          have := (hj 0 e (by omega) (by simp)).1
          rw [h1] at this; cases this
      cases es with
      | nil =>
        simp only [reduceCtorEq, false_iff]
        rintro ⟨j, e', e2, _, _, h3, _, _, h6⟩
        have := hj0 j h6; subst this
        simp at h3
      | cons e2 es' =>
        simp only
        constructor
        · intro h
          refine ⟨0, e, e2, ?_, by simp, by simp, h1, ?_, by intro j' e' hj'; omega⟩
          · split at h
            · cases h; rfl
            · split at h
              · cases h; rfl
              · cases h
          · by_cases c1 : inRange (-((f.start : Int) - e2.stop)) re = true
            · exact Or.inl c1
            · rw [if_neg c1] at h
              by_cases c2 : e2.stop ≤ f.start
              · exact Or.inr c2
              · rw [if_neg c2] at h; cases h
        · rintro ⟨j, e', e2', hk, h2, h3, _, h5, h6⟩
          have := hj0 j h6; subst this
          simp only [List.getElem?_cons_zero, Option.some.injEq, Nat.zero_add,
            List.getElem?_cons_succ] at h2 h3
          subst h2; subst h3
          rcases h5 with c1 | c2
          · rw [if_pos c1]; simp [hk]
          · by_cases c1 : inRange (-((f.start : Int) - e2.stop)) re = true
            · rw [if_pos c1]; simp [hk]
            · rw [if_neg c1, if_pos c2]; simp [hk]
    · rw [if_neg h1]
      have h1' : inRange (-((f.stop : Int) - e.start)) rs = false := by simpa using h1
      by_cases h2 : e.stop < f.start
      · rw [if_pos h2]
        simp only [reduceCtorEq, false_iff]
        rintro ⟨j, e', e2, _, hj, _, hr, _, h6⟩
        cases j with
        | zero =>
          simp only [List.getElem?_cons_zero, Option.some.injEq] at hj; subst hj
          exact h1 hr
        | succ j =>
          have := (h6 0 e (by omega) (by simp)).2
          omega
      · rw [if_neg h2, ih]
        constructor
        · rintro ⟨j, e', e2, hk, a1, a2, a3, a4, a5⟩
          refine ⟨j + 1, e', e2, by omega, by simpa using a1, by simpa using a2, a3, a4, ?_⟩
          intro j' e'' hj' he
          cases j' with
          | zero =>
            simp only [List.getElem?_cons_zero, Option.some.injEq] at he; subst he
            exact ⟨h1', by omega⟩
          | succ j' => exact a5 j' e'' (by omega) (by simpa using he)
        · rintro ⟨j, e', e2, hk, a1, a2, a3, a4, a5⟩
          cases j with
          | zero =>
            simp only [List.getElem?_cons_zero, Option.some.injEq] at a1; subst a1
            exact absurd a3 h1
          | succ j =>
            refine ⟨j, e', e2, by omega, by simpa using a1, by simpa using a2, a3, a4, ?_⟩
            intro j' e'' hj' he
            exact a5 (j' + 1) e'' (by omega) (by simpa using he)

theorem findIntronPlus_error (f : Iv) (rs re : Int × Int) :
    ∀ (es : List Iv) (i : Nat) (x : CoordErr), findIntronPlus f rs re es i = .error x →
      x = .intronNotFound := by
  intro es
  induction es with
  | nil => intro i x h; simp only [findIntronPlus] at h; cases h; rfl
  | cons e es ih =>
    intro i x h
    unfold findIntronPlus at h
    split at h
    · cases es with
      | nil => cases h; rfl
      | cons e2 es' =>
        simp only at h
        split at h
        · cases h
        · split at h
          · cases h
          · cases h; rfl
    · split at h
      · cases h; rfl
      · exact ih _ _ h

theorem findIntronMinus_error (f : Iv) (rs re : Int × Int) :
    ∀ (es : List Iv) (i : Nat) (x : CoordErr), findIntronMinus f rs re es i = .error x →
      x = .intronNotFound := by
  intro es
  induction es with
  | nil => intro i x h; simp only [findIntronMinus] at h; cases h; rfl
  | cons e es ih =>
    intro i x h
    unfold findIntronMinus at h
    split at h
    · cases es with
      | nil => cases h; rfl
      | cons e2 es' =>
        simp only at h
        split at h
        · cases h
        · split at h
          · cases h
          · cases h; rfl
    · split at h
      · cases h; rfl
      · exact ih _ _ h

theorem findExonPlus_error (f : Iv) :
    ∀ (es : List Iv) (i : Nat) (x : CoordErr), findExonPlus f es i = .error x → x = .exonNotFound := by
  intro es
  induction es with
  | nil => intro i x h; simp only [findExonPlus] at h; cases h; rfl
  | cons e es ih =>
    intro i x h
    unfold findExonPlus at h
    split at h
    · cases h
    · split at h
      · cases h; rfl
      · exact ih _ _ h

theorem findExonMinus_error (f : Iv) :
    ∀ (es : List Iv) (i : Nat) (x : CoordErr), findExonMinus f es i = .error x → x = .exonNotFound := by
  intro es
  induction es with
  | nil => intro i x h; simp only [findExonMinus] at h; cases h; rfl
  | cons e es ih =>
    intro i x h
    unfold findExonMinus at h
    split at h
    · cases h
    · split at h
      · cases h; rfl
      · exact ih _ _ h

/-- `find_exon_index` has no failure other than `ExonNotFoundError` -/
theorem findExonIndex_error {t : Transcript} {f : Iv} {x : CoordErr}
    (h : findExonIndex t f = .error x) : x = .exonNotFound := by
  unfold findExonIndex at h
  cases hs : t.strand <;> simp only [hs] at h
  · exact findExonPlus_error _ _ _ _ h
  · exact findExonMinus_error _ _ _ _ h

/-- `find_intron_index` has no failure other than `IntronNotFoundError` -/
theorem findIntronIndex_error {t : Transcript} {f : Iv} {rs re : Int × Int} {x : CoordErr}
    (h : findIntronIndex t f rs re = .error x) : x = .intronNotFound := by
  unfold findIntronIndex at h
  cases hs : t.strand <;> simp only [hs] at h
  · exact findIntronPlus_error _ _ _ _ _ _ h
  · exact findIntronMinus_error _ _ _ _ _ _ h

/-! ## outcome of the block loop on rows whose blocks lie inside the gene -/

/-- the look-up `convert_to_circ_rna` applies to a block -/
def blockLookup (t : Transcript) (isCi : Bool) (rs re : Int × Int) (b : Iv) : Except CoordErr Nat :=
  if isCi then findIntronIndex t b rs re else findExonIndex t b

theorem blockLookup_error {t : Transcript} {isCi : Bool} {rs re : Int × Int} {b : Iv}
    {x : CoordErr} (h : blockLookup t isCi rs re b = .error x) :
    x = (if isCi then .intronNotFound else .exonNotFound) := by
  unfold blockLookup at h
  cases isCi
  · simp only [Bool.false_eq_true, if_false] at h ⊢; exact findExonIndex_error h
  · simp only [if_true] at h ⊢; exact findIntronIndex_error h

/-- one step of the loop for a non-empty block inside the gene: the fragment is the
strand-corrected block and the look-up is applied to the block itself -/
theorem loop_step {g : Gene} {t : Transcript} (hst : t.strand = g.strand) {isCi : Bool}
    {rs re : Int × Int} {start off size : Nat} (hpos : 0 < size)
    (hin : InGene g ⟨start + off, start + off + size⟩) :
    blockToFragment g t.strand start off size = .ok (geneIv g ⟨start + off, start + off + size⟩) ∧
    lookupFragment g t isCi rs re (geneIv g ⟨start + off, start + off + size⟩) =
      blockLookup t isCi rs re ⟨start + off, start + off + size⟩ := by
  constructor
  · unfold blockToFragment; rw [hst]; exact spanToGene_of_inGene (by omega) hin
  · unfold lookupFragment blockLookup; rw [featGeneToGenomic_geneIv hin]

/-- On a row with positive sizes, enough offsets and all blocks inside the gene, the loop fails
iff the look-up of some block fails, and then with `ExonNotFoundError` (circRNA) /
`IntronNotFoundError` (ciRNA) — never with anything else. -/
theorem convertBlocks_cases {g : Gene} {t : Transcript} (hst : t.strand = g.strand)
    {isCi : Bool} {rs re : Int × Int} {start : Nat} {offsets : List Nat} :
    ∀ {sizes : List Nat} {i : Nat}, (∀ s ∈ sizes, 0 < s) → i + sizes.length ≤ offsets.length →
    (∀ b ∈ blocksOf start sizes (offsets.drop i), InGene g b) →
    ((∀ b ∈ blocksOf start sizes (offsets.drop i), ∃ k, blockLookup t isCi rs re b = .ok k) →
      ∃ acc, convertBlocks g t isCi rs re start offsets sizes i = .ok acc) ∧
    ((∃ b ∈ blocksOf start sizes (offsets.drop i), ∀ k, blockLookup t isCi rs re b ≠ .ok k) →
      convertBlocks g t isCi rs re start offsets sizes i =
        .error (.coord (if isCi then .intronNotFound else .exonNotFound))) := by
  intro sizes
  induction sizes with
  | nil =>
    intro i _ _ _
    refine ⟨fun _ => ⟨_, rfl⟩, ?_⟩
    rintro ⟨b, hb, _⟩; simp [blocksOf] at hb
  | cons size rest ih =>
    intro i hpos hlen hin
    have hi : i < offsets.length := by simp only [List.length_cons] at hlen; omega
    have hdrop : offsets.drop i = offsets[i] :: offsets.drop (i + 1) :=
      List.drop_eq_getElem_cons hi
    have ho : offsets[i]? = some offsets[i] := List.getElem?_eq_getElem hi
    rw [hdrop] at hin ⊢
    simp only [blocksOf] at hin ⊢
    have hin0 := hin _ List.mem_cons_self
    obtain ⟨hf, hl⟩ := loop_step (isCi := isCi) (rs := rs) (re := re) hst
      (hpos size List.mem_cons_self) hin0
    have ih' := ih (i := i + 1) (fun s hs => hpos s (List.mem_cons_of_mem _ hs))
      (by simp only [List.length_cons] at hlen; omega)
      (fun b hb => hin b (List.mem_cons_of_mem _ hb))
    unfold convertBlocks
    simp only [ho, hf, hl]
    constructor
    · intro hall
      obtain ⟨k, hk⟩ := hall _ List.mem_cons_self
      obtain ⟨acc, hacc⟩ := ih'.1 (fun b hb => hall b (List.mem_cons_of_mem _ hb))
      simp only [hk, hacc]
      exact ⟨_, rfl⟩
    · rintro ⟨b, hb, hbad⟩
      cases hk : blockLookup t isCi rs re ⟨start + offsets[i], start + offsets[i] + size⟩ with
      | error x => simp only; rw [blockLookup_error hk]
      | ok k =>
        simp only
        rcases List.mem_cons.mp hb with rfl | hb'
        · exact absurd hk (hbad k)
        · rw [ih'.2 ⟨b, hb', hbad⟩]

end MoPepGen
