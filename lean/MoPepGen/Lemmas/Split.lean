import MoPepGen.Model.Split
/-! Helper lemmas for C18. -/
namespace MoPepGen

/-! ### shortlex order on `to_int` images -/

theorem lexGt_irrefl : ∀ a : List Nat, lexGt a a = false := by
  intro a
  induction a with
  | nil => rfl
  | cons x xs ih => simp [lexGt, ih]

theorem lexGt_asymm : ∀ a b : List Nat, lexGt a b = true → lexGt b a = false := by
  intro a
  induction a with
  | nil => intro b h; cases b <;> simp [lexGt] at h
  | cons x xs ih =>
    intro b h
    cases b with
    | nil => simp [lexGt] at h
    | cons y ys =>
      simp only [lexGt] at h ⊢
      by_cases h1 : x > y
      · have : ¬ y > x := by omega
        have h2 : y < x := h1
        simp [this, h2]
      · by_cases h2 : x < y
        · simp [h1, h2] at h
        · have : x = y := by omega
          subst this
          simp only [h1, if_false] at h
          simp only [Nat.lt_irrefl, if_false]
          exact ih ys h

theorem lexGt_total : ∀ a b : List Nat, a.length = b.length → a ≠ b →
    lexGt a b = true ∨ lexGt b a = true := by
  intro a
  induction a with
  | nil => intro b hl hne; cases b with
    | nil => exact absurd rfl hne
    | cons _ _ => simp at hl
  | cons x xs ih =>
    intro b hl hne
    cases b with
    | nil => simp at hl
    | cons y ys =>
      simp only [lexGt]
      by_cases h1 : x > y
      · left; simp [h1]
      · by_cases h2 : x < y
        · right; have : y > x := h2; simp [this]
        · have : x = y := by omega
          subst this
          simp only [Nat.lt_irrefl, if_false]
          apply ih ys (by simpa using hl)
          intro h; exact hne (by rw [h])

theorem lexGt_trans : ∀ a b c : List Nat, lexGt a b = true → lexGt b c = true → lexGt a c = true := by
  intro a
  induction a with
  | nil => intro b c h; cases b <;> simp [lexGt] at h
  | cons x xs ih =>
    intro b c h1 h2
    cases b with
    | nil => simp [lexGt] at h1
    | cons y ys =>
      cases c with
      | nil => simp [lexGt] at h2
      | cons z zs =>
        simp only [lexGt] at h1 h2 ⊢
        by_cases hxy : x > y
        · by_cases hyz : y > z
          · have : x > z := by omega
            simp [this]
          · by_cases hyz' : y < z
            · simp [hyz, hyz'] at h2
            · have : y = z := by omega
              subst this; simp [hxy]
        · by_cases hxy' : x < y
          · simp [hxy, hxy'] at h1
          · have : x = y := by omega
            subst this
            simp only [hxy, if_false] at h1
            by_cases hyz : x > z
            · simp [hyz]
            · by_cases hyz' : x < z
              · simp [hyz, hyz'] at h2
              · have : x = z := by omega
                subst this
                simp only [hyz, if_false] at h2 ⊢
                exact ih ys zs h1 h2

/-- negative transitivity of `lexGt` on lists of one length -/
theorem lexGt_negtrans : ∀ a b c : List Nat, a.length = b.length → b.length = c.length →
    lexGt a c = true → lexGt a b = true ∨ lexGt b c = true := by
  intro a b c h1 h2 h
  by_cases hab : a = b
  · subst hab; right; exact h
  · rcases lexGt_total a b h1 hab with h' | h'
    · left; exact h'
    · right; exact lexGt_trans b a c h' h

theorem intsGt_irrefl (a : List Nat) : intsGt a a = false := by
  simp [intsGt, lexGt_irrefl]

theorem intsGt_asymm (a b : List Nat) (h : intsGt a b = true) : intsGt b a = false := by
  unfold intsGt at h ⊢
  by_cases h1 : a.length > b.length
  · have h2 : ¬ b.length > a.length := by omega
    have h3 : b.length < a.length := h1
    simp [h2, h3]
  · by_cases h2 : a.length < b.length
    · simp [h1, h2] at h
    · simp only [h1, h2, if_false] at h
      have h3 : ¬ b.length > a.length := by omega
      have h4 : ¬ b.length < a.length := by omega
      simp only [h3, h4, if_false]
      exact lexGt_asymm a b h

theorem intsGt_total (a b : List Nat) (hne : a ≠ b) : intsGt a b = true ∨ intsGt b a = true := by
  unfold intsGt
  by_cases h1 : a.length > b.length
  · left; simp [h1]
  · by_cases h2 : a.length < b.length
    · right; have : b.length > a.length := h2; simp [this]
    · have h3 : ¬ b.length > a.length := by omega
      have h4 : ¬ b.length < a.length := by omega
      simp only [h1, h2, h3, h4, if_false]
      exact lexGt_total a b (by omega) hne

theorem intsGt_trans (a b c : List Nat) (h1 : intsGt a b = true) (h2 : intsGt b c = true) :
    intsGt a c = true := by
  unfold intsGt at h1 h2 ⊢
  by_cases hab : a.length > b.length
  · by_cases hbc : b.length > c.length
    · have : a.length > c.length := by omega
      simp [this]
    · by_cases hbc' : b.length < c.length
      · simp [hbc, hbc'] at h2
      · have : a.length > c.length := by omega
        simp [this]
  · by_cases hab' : a.length < b.length
    · simp [hab, hab'] at h1
    · simp only [hab, hab', if_false] at h1
      by_cases hbc : b.length > c.length
      · have : a.length > c.length := by omega
        simp [this]
      · by_cases hbc' : b.length < c.length
        · simp [hbc, hbc'] at h2
        · simp only [hbc, hbc', if_false] at h2
          have h5 : ¬ a.length > c.length := by omega
          have h6 : ¬ a.length < c.length := by omega
          simp only [h5, h6, if_false]
          exact lexGt_trans a b c h1 h2

theorem intsLe_total (a b : List Nat) (h : intsLe a b = false) : intsLe b a = true := by
  unfold intsLe at h ⊢
  have : intsGt a b = true := by simpa using h
  simp [intsGt_asymm a b this]

theorem intsLe_trans (a b c : List Nat) (h1 : intsLe a b = true) (h2 : intsLe b c = true) :
    intsLe a c = true := by
  unfold intsLe at *
  have h1' : intsGt a b = false := by simpa using h1
  have h2' : intsGt b c = false := by simpa using h2
  cases hac : intsGt a c with
  | false => rfl
  | true =>
    exfalso
    by_cases hab : a = b
    · subst hab; rw [hac] at h2'; cases h2'
    · rcases intsGt_total a b hab with h | h
      · rw [h] at h1'; cases h1'
      · have := intsGt_trans b a c h hac
        rw [this] at h2'; cases h2'

/-! ### insertion sort -/

theorem insertBy_perm {α} (le : α → α → Bool) (x : α) : ∀ l : List α, (insertBy le x l).Perm (x :: l) := by
  intro l
  induction l with
  | nil => exact List.Perm.refl _
  | cons y ys ih =>
    unfold insertBy
    by_cases h : le x y = true
    · simp [h]
    · simp only [h]
      exact (List.Perm.cons y ih).trans (List.Perm.swap x y ys)

theorem isort_perm {α} (le : α → α → Bool) : ∀ l : List α, (isort le l).Perm l := by
  intro l
  induction l with
  | nil => exact List.Perm.refl _
  | cons x xs ih =>
    show (insertBy le x (isort le xs)).Perm (x :: xs)
    exact (insertBy_perm le x _).trans (List.Perm.cons x ih)

/-- the head of an insertion sort by a total, transitive `le` is a minimum -/
theorem isort_head_min {α} (le : α → α → Bool)
    (htot : ∀ a b, le a b = false → le b a = true)
    (htrans : ∀ a b c, le a b = true → le b c = true → le a c = true) :
    ∀ (l : List α) (h : α) (t : List α), isort le l = h :: t → ∀ x ∈ l, le h x = true := by
  intro l
  induction l with
  | nil => intro h t he; simp [isort] at he
  | cons y ys ih =>
    intro h t he x hx
    have hrefl : ∀ a, le a a = true := by
      intro a
      cases haa : le a a with
      | true => rfl
      | false => exact (htot a a haa).symm ▸ (by rw [htot a a haa] at haa; cases haa)
    change insertBy le y (isort le ys) = h :: t at he
    cases hs : isort le ys with
    | nil =>
      rw [hs] at he
      simp only [insertBy, List.cons.injEq] at he
      have hys : ys = [] := by
        have := (isort_perm le ys).length_eq
        rw [hs] at this
        exact List.length_eq_zero_iff.mp this.symm
      subst hys
      obtain ⟨rfl, _⟩ := he
      rcases List.mem_cons.mp hx with rfl | hx
      · exact hrefl _
      · cases hx
    | cons h' t' =>
      rw [hs] at he
      have ihm := ih h' t' hs
      unfold insertBy at he
      by_cases hle : le y h' = true
      · simp only [hle, if_true, List.cons.injEq] at he
        obtain ⟨rfl, _⟩ := he
        rcases List.mem_cons.mp hx with rfl | hx
        · exact hrefl _
        · exact htrans _ _ _ hle (ihm x hx)
      · simp only [hle, List.cons.injEq] at he
        obtain ⟨rfl, _⟩ := he
        rcases List.mem_cons.mp hx with rfl | hx
        · exact htot _ _ (by simpa using hle)
        · exact ihm x hx

/-! ### databases -/

def dbGet (dbs : Dbs) (k : DbKey) : List PRec :=
  match dbs.find? (fun d => d.1 = k) with
  | some d => d.2
  | none => []

theorem dbGet_addToDb (dbs : Dbs) (k : DbKey) (p : PRec) (k' : DbKey) :
    dbGet (addToDb dbs k p) k' = if k' = k then dbGet dbs k ++ [p] else dbGet dbs k' := by
  induction dbs with
  | nil =>
    by_cases h : k' = k
    · subst h; simp [addToDb, dbGet]
    · have : ¬ k = k' := fun e => h e.symm
      simp [addToDb, dbGet, h, this]
  | cons d rest ih =>
    obtain ⟨kd, ps⟩ := d
    unfold addToDb
    by_cases hk : kd = k
    · subst hk
      by_cases h : k' = kd
      · subst h; simp [dbGet]
      · have : ¬ kd = k' := fun e => h e.symm
        simp [dbGet, h, this]
    · simp only [hk, if_false]
      by_cases h2 : kd = k'
      · subst h2
        have : ¬ kd = k := hk
        simp [dbGet, this]
      · have e1 : dbGet ((kd, ps) :: addToDb rest k p) k' = dbGet (addToDb rest k p) k' := by
          simp [dbGet, h2]
        have e2 : dbGet ((kd, ps) :: rest) k' = dbGet rest k' := by simp [dbGet, h2]
        have e3 : dbGet ((kd, ps) :: rest) k = dbGet rest k := by simp [dbGet, hk]
        rw [e1, e2, e3]; exact ih

theorem keys_addToDb_nodup (dbs : Dbs) (k : DbKey) (p : PRec) (h : (dbs.map (·.1)).Nodup) :
    ((addToDb dbs k p).map (·.1)).Nodup ∧
    ∀ k', k' ∈ (addToDb dbs k p).map (·.1) ↔ k' = k ∨ k' ∈ dbs.map (·.1) := by
  induction dbs with
  | nil => simp [addToDb]
  | cons d rest ih =>
    obtain ⟨kd, ps⟩ := d
    simp only [List.map_cons, List.nodup_cons] at h
    obtain ⟨ih1, ih2⟩ := ih h.2
    unfold addToDb
    by_cases hk : kd = k
    · subst hk
      simp only [if_true, List.map_cons, List.nodup_cons, List.mem_cons]
      refine ⟨h, fun k' => ?_⟩
      constructor
      · rintro (e | e)
        · exact Or.inl e
        · exact Or.inr (Or.inr e)
      · rintro (e | e | e)
        · exact Or.inl e
        · exact Or.inl e
        · exact Or.inr e
    · simp only [hk, if_false, List.map_cons, List.nodup_cons, List.mem_cons]
      refine ⟨⟨?_, ih1⟩, ?_⟩
      · intro hm
        rcases (ih2 kd).mp hm with e | e
        · exact hk e
        · exact h.1 e
      · intro k'
        rw [ih2 k']
        constructor
        · rintro (e | e | e)
          · exact Or.inr (Or.inl e)
          · exact Or.inl e
          · exact Or.inr (Or.inr e)
        · rintro (e | e | e)
          · exact Or.inr (Or.inl e)
          · exact Or.inl e
          · exact Or.inr (Or.inr e)

theorem sizes_addToDb (dbs : Dbs) (k : DbKey) (p : PRec) :
    ((addToDb dbs k p).map (·.2.length)).sum = (dbs.map (·.2.length)).sum + 1 := by
  induction dbs with
  | nil => simp [addToDb]
  | cons d rest ih =>
    obtain ⟨kd, ps⟩ := d
    unfold addToDb
    by_cases hk : kd = k
    · simp [hk]; omega
    · simp [hk, ih]; omega

/-- the fold of `addToDb` over the assignments -/
theorem foldl_addToDb (as : List (DbKey × PRec)) :
    ∀ dbs : Dbs, (dbs.map (·.1)).Nodup →
      let r := as.foldl (fun dbs a => addToDb dbs a.1 a.2) dbs
      (r.map (·.1)).Nodup ∧
      (∀ k, dbGet r k = dbGet dbs k ++ (as.filter (fun a => a.1 = k)).map (·.2)) ∧
      (r.map (·.2.length)).sum = (dbs.map (·.2.length)).sum + as.length := by
  induction as with
  | nil => intro dbs h; simp [h]
  | cons a as ih =>
    intro dbs h
    have h1 := keys_addToDb_nodup dbs a.1 a.2 h
    obtain ⟨i1, i2, i3⟩ := ih (addToDb dbs a.1 a.2) h1.1
    simp only [List.foldl_cons]
    refine ⟨i1, ?_, ?_⟩
    · intro k
      rw [i2 k, dbGet_addToDb]
      by_cases hk : k = a.1
      · subst hk; simp [List.filter_cons]
      · have : ¬ a.1 = k := fun e => hk e.symm
        simp [hk, List.filter_cons, this]
    · rw [i3, sizes_addToDb]; simp; omega

/-! ### merge -/

/-- header of the first record with sequence `s` (`[]` when absent) -/
def hdrOf (pool : List PRec) (s : Pep) : Header :=
  match pool.find? (fun q => q.seq = s) with
  | some q => q.header
  | none => []

theorem addPeptide_seqs (pool : List PRec) (p : PRec) :
    (addPeptide pool p).map (·.seq) =
      if p.seq ∈ pool.map (·.seq) then pool.map (·.seq) else pool.map (·.seq) ++ [p.seq] := by
  induction pool with
  | nil => simp [addPeptide]
  | cons q qs ih =>
    unfold addPeptide
    by_cases h : q.seq = p.seq
    · simp [h]
    · have h' : ¬ p.seq = q.seq := fun e => h e.symm
      simp only [h, if_false, List.map_cons, List.mem_cons, h', false_or, ih]
      split <;> simp

theorem addPeptide_hdr (pool : List PRec) (p : PRec) (s : Pep) :
    hdrOf (addPeptide pool p) s = if s = p.seq then hdrOf pool s ++ p.header else hdrOf pool s := by
  induction pool with
  | nil =>
    by_cases h : s = p.seq
    · subst h; simp [addPeptide, hdrOf]
    · have : ¬ p.seq = s := fun e => h e.symm
      simp [addPeptide, hdrOf, h, this]
  | cons q qs ih =>
    unfold addPeptide
    by_cases hq : q.seq = p.seq
    · simp only [hq, if_true]
      by_cases h : s = p.seq
      · subst h; simp [hdrOf, hq]
      · have : ¬ p.seq = s := fun e => h e.symm
        simp [hdrOf, hq, h, this]
    · simp only [hq, if_false]
      by_cases h2 : q.seq = s
      · subst h2
        have : ¬ q.seq = p.seq := hq
        simp [hdrOf, this]
      · have e1 : hdrOf (q :: addPeptide qs p) s = hdrOf (addPeptide qs p) s := by
          simp [hdrOf, h2]
        have e2 : hdrOf (q :: qs) s = hdrOf qs s := by simp [hdrOf, h2]
        rw [e1, e2]; exact ih

/-! ### summary -/

theorem bump_sum (l : List (Nat × Nat)) (k : Nat) :
    ((bump l k).map (·.2)).sum = (l.map (·.2)).sum + 1 := by
  induction l with
  | nil => simp [bump]
  | cons e rest ih =>
    obtain ⟨k', n⟩ := e
    unfold bump
    by_cases h : k' = k
    · simp [h]; omega
    · simp [h, ih]; omega

theorem sumAdd_total (t : SumTable) (s : SrcSet) (m : Nat) :
    (sumAdd t s m).total = t.total + 1 := by
  induction t with
  | nil => simp [sumAdd, SumTable.total]
  | cons e rest ih =>
    obtain ⟨s', n, ms⟩ := e
    unfold sumAdd
    by_cases h : sameSet s' s = true
    · simp [h, SumTable.total]; omega
    · have hf : sameSet s' s = false := by simpa using h
      simp only [hf, Bool.false_eq_true, if_false]
      simp only [SumTable.total, List.map_cons, List.sum_cons] at ih ⊢
      rw [ih]; omega

theorem sumKeys_length (env : SrcEnv) (rule : Re) (exc : Option Re) :
    ∀ (pool : List PRec) (ks : List (SrcSet × Nat)), sumKeys env rule exc pool = .ok ks →
      ks.length = pool.length := by
  intro pool
  induction pool with
  | nil => intro ks h; simp [sumKeys] at h; subst h; rfl
  | cons p ps ih =>
    intro ks h
    simp only [sumKeys] at h
    cases hs : sumSources env p with
    | error e => simp [hs] at h
    | ok s =>
      simp only [hs] at h
      cases hr : sumKeys env rule exc ps with
      | error e => simp [hr] at h
      | ok r =>
        simp only [hr] at h
        cases h
        simp [ih r hr]

end MoPepGen
