/-
Completeness of the two-cursor loop of `PVGNode.fix_selenocysteines` (`Model/Translate.lean`,
`secLoopAux`) for the inputs it is written for: the matched locations of the node all usable
(not empty, level 0) and in ONE frame `f`, their whole-codon windows in ascending order without
overlap, the Sec records in frame `f`, non-empty, ascending without overlap.  Then EVERY pair
(location, Sec record) with the record inside the window yields its position
(`secLoopAux_complete`); with `mem_secLoopAux` (soundness, no assumption) the collected positions
are exactly those pairs.  For unsorted input or mixed frames only soundness holds (the cursors
may run past a pair) — the model follows the code there, the `G-translate-direct` stream
exercises it.
-/
import MoPepGen.Lemmas.Translate
namespace MoPepGen.Translate
open MoPepGen MoPepGen.Spec MoPepGen.Graph

structure SecSorted (f : Nat) (locs : List ALoc) (sects : List (Nat × Nat)) : Prop where
  locOk : ∀ l ∈ locs, l.len ≠ 0 ∧ l.lvl0 = true ∧ l.qRf = f
  secOk : ∀ s ∈ sects, s.1 % 3 = f ∧ s.1 < s.2
  locAsc : locs.Pairwise fun a b => a.window.2 ≤ b.window.1
  secAsc : sects.Pairwise fun a b => a.2 ≤ b.1

theorem SecSorted.tailLoc {f : Nat} {l : ALoc} {ls : List ALoc} {ss : List (Nat × Nat)}
    (h : SecSorted f (l :: ls) ss) : SecSorted f ls ss :=
  ⟨fun x hx => h.locOk x (List.mem_cons_of_mem _ hx), h.secOk, (List.pairwise_cons.mp h.locAsc).2, h.secAsc⟩

theorem SecSorted.tailSec {f : Nat} {ls : List ALoc} {s : Nat × Nat} {ss : List (Nat × Nat)}
    (h : SecSorted f ls (s :: ss)) : SecSorted f ls ss :=
  ⟨h.locOk, fun x hx => h.secOk x (List.mem_cons_of_mem _ hx), h.locAsc, (List.pairwise_cons.mp h.secAsc).2⟩

/-- the position the loop records for the pair -/
def hitOf (l : ALoc) (s : Nat × Nat) : Nat :=
  l.qStart + (Int.tdiv ((s.1 : Int) - l.refCodonStart) 3).toNat

theorem secLoopAux_complete (f : Nat) : ∀ (fuel : Nat) (locs : List ALoc) (sects : List (Nat × Nat)),
    locs.length + sects.length ≤ fuel → SecSorted f locs sects →
    ∀ l ∈ locs, ∀ s ∈ sects, l.window.1 ≤ (s.1 : Int) → (s.2 : Int) ≤ l.window.2 →
      hitOf l s ∈ secLoopAux fuel locs sects := by
  intro fuel
  induction fuel with
  | zero =>
    intro locs sects hlen _ l hl
    have : locs = [] := List.eq_nil_of_length_eq_zero (by omega)
    subst this; cases hl
  | succ n ih =>
    intro locs sects hlen hS l hl s hs hc1 hc2
    match locs, sects with
    | [], _ => cases hl
    | _ :: _, [] => cases hs
    | loc :: ls, sect :: ss =>
      obtain ⟨hlen0, hlvl, hrf⟩ := hS.locOk loc (by simp)
      obtain ⟨hsf, hsne⟩ := hS.secOk sect (by simp)
      have hsne_s := (hS.secOk s hs).2
      have hlocAsc := List.pairwise_cons.mp hS.locAsc
      have hsecAsc := List.pairwise_cons.mp hS.secAsc
      simp only [List.length_cons] at hlen
      simp only [secLoopAux]
      have e1 : (loc.len == 0) = false := by simpa using hlen0
      have e2 : (!loc.lvl0) = false := by simp [hlvl]
      have e3 : (loc.qRf != sect.1 % 3) = false := by simp [hrf, hsf]
      simp only [e1, e2, e3, Bool.false_eq_true, if_false]
      split
      · -- an empty window: the location is skipped
        rename_i hw
        rcases List.mem_cons.mp hl with rfl | hl'
        · exfalso; omega
        · exact ih ls (sect :: ss) (by simp only [List.length_cons]; omega) hS.tailLoc l hl' s hs hc1 hc2
      · rename_i hw
        split
        · -- the record lies in the window of the first location
          rename_i hsup
          simp only [Bool.and_eq_true, decide_eq_true_eq, ge_iff_le] at hsup
          rcases List.mem_cons.mp hs with rfl | hs'
          · rcases List.mem_cons.mp hl with rfl | hl'
            · exact List.mem_cons_self
            · exfalso
              have := hlocAsc.1 l hl'
              omega
          · exact List.mem_cons_of_mem _
              (ih (loc :: ls) ss (by simp only [List.length_cons]; omega) hS.tailSec l hl s hs' hc1 hc2)
        · rename_i hsup
          simp only [Bool.and_eq_true, decide_eq_true_eq, ge_iff_le, not_and, Int.not_le] at hsup
          split
          · -- the window lies behind the record: next record
            rename_i hgt
            simp only [Bool.or_eq_true, decide_eq_true_eq, Bool.and_eq_true, beq_iff_eq] at hgt
            rcases List.mem_cons.mp hs with rfl | hs'
            · exfalso
              rcases List.mem_cons.mp hl with rfl | hl'
              · have := hsup hc1; omega
              · have := hlocAsc.1 l hl'
                rcases hgt with hgt | ⟨hgt1, hgt2⟩
                · omega
                · have := hsup (by omega); omega
            · exact ih (loc :: ls) ss (by simp only [List.length_cons]; omega) hS.tailSec l hl s hs' hc1 hc2
          · -- the window lies in front of the record: next location
            rename_i hgt
            simp only [Bool.or_eq_true, decide_eq_true_eq, Bool.and_eq_true, beq_iff_eq, not_or,
              Int.not_lt, not_and] at hgt
            rcases List.mem_cons.mp hl with rfl | hl'
            · exfalso
              have hle : l.window.1 ≤ (sect.1 : Int) := hgt.1
              have hlt : l.window.2 < (sect.2 : Int) := hsup hle
              rcases List.mem_cons.mp hs with rfl | hs'
              · omega
              · have := hsecAsc.1 s hs'
                omega
            · exact ih ls (sect :: ss) (by simp only [List.length_cons]; omega) hS.tailLoc l hl' s hs hc1 hc2

/-- for a node of a linear transcript whose locations and Sec records are sorted as above, the
positions collected are EXACTLY the pairs (location, record) with the record inside the
location's whole-codon window -/
theorem mem_secHits_iff_of_sorted {g : TGraphIn} {n : DNode} {f : Nat}
    (hS : SecSorted f (n.locs.map aaLoc) g.sect) (k : Nat) :
    k ∈ secHits g n ↔ ∃ l ∈ n.locs, ∃ s ∈ g.sect, l.codonWindow.1 ≤ (s.1 : Int) ∧
      (s.2 : Int) ≤ l.codonWindow.2 ∧
      k = l.qStart / 3 + (Int.tdiv ((s.1 : Int) - l.codonStart) 3).toNat := by
  constructor
  · intro h
    obtain ⟨l, hl, s, hs, _, _, _, _, h5, h6, h7⟩ := mem_secHits h
    exact ⟨l, hl, s, hs, h5, h6, h7⟩
  · rintro ⟨l, hl, s, hs, h5, h6, rfl⟩
    have := secLoopAux_complete f _ (n.locs.map aaLoc) g.sect (Nat.le_refl _) hS (aaLoc l)
      (List.mem_map.mpr ⟨l, hl, rfl⟩) s hs (by rw [aaLoc_window]; exact h5) (by rw [aaLoc_window]; exact h6)
    have hq : (aaLoc l).qStart = l.qStart / 3 := rfl
    unfold hitOf at this
    rw [aaLoc_refCodonStart, hq] at this
    simpa [secHits, secLoop] using this


/-- the fuel of `secLoop` (number of locations + number of Sec records) is no restriction -/
theorem secLoopAux_fuel : ∀ (fuel : Nat) (locs : List ALoc) (sects : List (Nat × Nat)),
    locs.length + sects.length ≤ fuel → ∀ k,
      secLoopAux (fuel + k) locs sects = secLoopAux fuel locs sects := by
  intro fuel
  induction fuel with
  | zero =>
    intro locs sects hlen k
    have h1 : locs = [] := List.eq_nil_of_length_eq_zero (by omega)
    subst h1
    cases k <;> simp [secLoopAux]
  | succ n ih =>
    intro locs sects hlen k
    have : n + 1 + k = (n + k) + 1 := by omega
    rw [this]
    match locs, sects with
    | [], _ => simp [secLoopAux]
    | _ :: _, [] => simp [secLoopAux]
    | loc :: ls, sect :: ss =>
      simp only [List.length_cons] at hlen
      simp only [secLoopAux]
      rw [ih ls (sect :: ss) (by simp only [List.length_cons]; omega) k,
        ih (loc :: ls) ss (by simp only [List.length_cons]; omega) k]

theorem secLoop_fuel (locs : List ALoc) (sects : List (Nat × Nat)) (k : Nat) :
    secLoopAux (locs.length + sects.length + k) locs sects = secLoop locs sects :=
  secLoopAux_fuel _ _ _ (Nat.le_refl _) k

end MoPepGen.Translate
