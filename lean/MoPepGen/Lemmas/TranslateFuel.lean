/-
The fuel of the `while queue` loop of `Model/Translate.lean` (`bfs`) is not a modelling artefact:
the number of TVG nodes that have no `PVGNode` yet plus the length of the queue drops with every
`queue.pop()`, so `g.nodes.size + g.frames.length + 1` iterations are enough — with any larger
amount of fuel the search returns the same result (`translateCore_fuel_stable`).
-/
import MoPepGen.Lemmas.Translate
namespace MoPepGen.Translate
open MoPepGen MoPepGen.Spec MoPepGen.Graph

/-- TVG nodes without a `PVGNode` -/
def absentCount (g : TGraphIn) (ns : Array PNode) : Nat :=
  ((List.range g.nodes.size).filter fun o => !presentAt ns (pix o)).length

def mu (g : TGraphIn) (st : St) : Nat := absentCount g st.nodes + st.queue.length

theorem filter_length_lt (l : List Nat) (P P' : Nat → Bool) (himp : ∀ x, P' x = true → P x = true)
    (o : Nat) (ho : o ∈ l) (hP : P o = true) (hP' : P' o = false) :
    (l.filter P').length + 1 ≤ (l.filter P).length := by
  induction l with
  | nil => cases ho
  | cons a as ih =>
    have hle : ∀ (m : List Nat), (m.filter P').length ≤ (m.filter P).length := by
      intro m
      induction m with
      | nil => simp
      | cons b bs ihb =>
        simp only [List.filter_cons]
        cases hb' : P' b
        · cases hb : P b
          · simpa using ihb
          · simp only [Bool.false_eq_true, if_false, if_true, List.length_cons]; omega
        · rw [himp b hb']; simpa using ihb
    simp only [List.filter_cons]
    rcases List.mem_cons.mp ho with rfl | ho
    · rw [hP, hP']
      simp only [Bool.false_eq_true, if_false, if_true, List.length_cons]
      have := hle as; omega
    · have := ih ho
      cases ha' : P' a
      · cases ha : P a
        · simpa using this
        · simp only [Bool.false_eq_true, if_false, if_true, List.length_cons]; omega
      · rw [himp a ha']
        simp only [if_true, List.length_cons]; omega

theorem visitEdge_mu {g : TGraphIn} {nOut d p o : Nat} {st st' : St}
    (hI : Inv g st [(d, p)]) (h : visitEdge g nOut p st o = .ok st') : mu g st' ≤ mu g st := by
  have hdp : (d, p) ∈ [(d, p)] ++ st.queue := by simp
  obtain ⟨hplt, _⟩ := hI.item_lt hdp
  obtain ⟨n, hn, _, e2, _, _, e5⟩ := visitEdge_effect hI.size hplt hI.absentOut h
  have hon : o < g.nodes.size := by
    rcases Nat.lt_or_ge o g.nodes.size with h' | h'
    · exact h'
    · rw [Array.getElem?_eq_none h'] at hn; cases hn
  rcases e5 with ⟨hv, hq⟩ | ⟨hv, hq, _⟩
  · have : absentCount g st'.nodes = absentCount g st.nodes := by
      unfold absentCount
      congr 1
      apply List.filter_congr
      intro x _
      rw [e2]
      by_cases hx : pix x = pix o
      · rw [hx, hv]; simp
      · have : (pix x == pix o) = false := by simpa using hx
        simp [this]
    simp only [mu, this, hq]; exact Nat.le_refl _
  · have : absentCount g st'.nodes + 1 ≤ absentCount g st.nodes := by
      unfold absentCount
      apply filter_length_lt _ _ _ _ o (List.mem_range.mpr hon)
      · simp [hv]
      · rw [e2]; simp
      · intro x hx
        rw [e2] at hx
        cases hpx : presentAt st.nodes (pix x)
        · rfl
        · rw [hpx] at hx; simp at hx
    simp only [mu, hq, List.length_append, List.length_cons, List.length_nil]
    omega

theorem visitEdges_mu {g : TGraphIn} {nOut d p : Nat} {dn : DNode} (hd : g.nodes[d]? = some dn) :
    ∀ (es : List (Nat × EType)) (st st' : St), (∀ e ∈ es, e ∈ dn.out) → Inv g st [(d, p)] →
      visitEdges g nOut p st es = .ok st' → mu g st' ≤ mu g st := by
  intro es
  induction es with
  | nil => intro st st' _ _ h; simp only [visitEdges] at h; cases h; exact Nat.le_refl _
  | cons e es ih =>
    intro st st' hsub hI h
    simp only [visitEdges] at h
    split at h
    · cases h
    · rename_i st1 h1
      obtain ⟨hI1, _, _⟩ := visitEdge_inv (ty := e.2) hI hd (hsub e (by simp)) h1
      exact Nat.le_trans (ih st1 st' (fun x hx => hsub x (by simp [hx])) hI1 h) (visitEdge_mu hI h1)

theorem processItem_mu {g : TGraphIn} {d p : Nat} {st st' : St}
    (hI : Inv g st [(d, p)]) (h : processItem g st d p = .ok st') : mu g st' ≤ mu g st := by
  unfold processItem at h
  split at h
  · cases h
  · rename_i dn hd
    split at h
    · cases h
      have : absentCount g (if g.clip = true then setTruncated (addEdge st.nodes p stopIx) p
          else addEdge st.nodes p stopIx) = absentCount g st.nodes := by
        unfold absentCount
        congr 1
        apply List.filter_congr
        intro x _
        split <;> simp [presentAt_setTruncated, presentAt_addEdge]
      simp only [mu, this]; exact Nat.le_refl _
    · exact visitEdges_mu hd dn.out st st' (fun _ he => he) hI h

/-- enough fuel: any more fuel gives the same result -/
theorem bfs_fuel_stable {g : TGraphIn} : ∀ (fuel : Nat) (st : St), Inv g st [] → mu g st ≤ fuel →
    ∀ k, bfs g (fuel + k) st = bfs g fuel st := by
  intro fuel
  induction fuel with
  | zero =>
    intro st _ hmu k
    have hq : st.queue = [] := by
      simp only [mu] at hmu
      exact List.eq_nil_of_length_eq_zero (by omega)
    cases k with
    | zero => rfl
    | succ k =>
      have : 0 + (k + 1) = k + 1 := by omega
      rw [this]
      simp [bfs, hq]
  | succ n ih =>
    intro st hI hmu k
    have : n + 1 + k = (n + k) + 1 := by omega
    rw [this]
    unfold bfs
    split
    · rfl
    · rename_i d p q hq
      have hI1 : Inv g { st with queue := q } [(d, p)] := by
        have hqq : ∀ x, x ∈ [(d, p)] ++ q ↔ x ∈ [] ++ st.queue := by
          intro x; rw [hq]; simp
        exact ⟨hI.size, hI.node, hI.sound, hI.rootSound,
          fun o dn hp ho hn => hI.complete o dn hp ho (fun hc => hn ((hqq _).mpr hc)),
          fun d' hd' dn h1 hn => hI.rootComplete d' hd' dn h1 (fun hc => hn ((hqq _).mpr hc)),
          fun dp hdp => hI.queue dp ((hqq _).mp hdp), hI.absentOut, hI.rootPresent, hI.closed⟩
      cases h1 : processItem g { st with queue := q } d p with
      | error e => rfl
      | ok st1 =>
        simp only
        apply ih st1 (processItem_inv hI1 h1)
        have := processItem_mu hI1 h1
        simp only [mu, hq, List.length_cons] at hmu this ⊢
        omega

theorem initSt_mu (g : TGraphIn) : mu g (initSt g) = g.nodes.size + g.frames.length := by
  simp only [mu, absentCount]
  have : ((List.range g.nodes.size).filter fun o => !presentAt (initSt g).nodes (pix o)) =
      List.range g.nodes.size := by
    apply List.filter_eq_self.mpr
    intro a _
    simp [initSt_present_pix]
  rw [this]
  simp [initSt]

/-- the fuel `translateCore` hands to the search is enough -/
theorem translateCore_fuel_stable (g : TGraphIn) (k : Nat) :
    bfs g (g.nodes.size + g.frames.length + 1 + k) (initSt g) =
      bfs g (g.nodes.size + g.frames.length + 1) (initSt g) :=
  bfs_fuel_stable _ _ (initSt_inv g) (by rw [initSt_mu]; omega) k

end MoPepGen.Translate
