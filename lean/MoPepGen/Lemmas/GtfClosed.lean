import MoPepGen.Lemmas.Gtf
/-! Helper lemmas for the closure of the GTF round trip (property C11): the annotation
`GtfIO.write` → `dump_gtf` returns is again `wf ∧ ordered ∧ stable`. -/
namespace MoPepGen.Gtf
open MoPepGen.Gvf (Str AttrVal dictGet dictSet)

/-- the annotation `parse_write` computes: genes unchanged, transcripts dict re-listed gene by
gene, every model reloaded from its own block -/
def reloaded (a : Anno) : Anno :=
  { genes := a.genes, txs := a.canon.txs.map fun kv => (kv.1, reloadTx kv.2) }

theorem reload_eq {a : Anno} (h : a.wf = true) : reload a = .ok (reloaded a) := by
  obtain ⟨ls, hw, hp⟩ := parse_write h
  simp only [reload, hw, hp, reloaded]

/-- `Anno.wf` gives the executable `TxModel.wf` of every listed transcript -/
theorem Anno.wf_tx {a : Anno} (h : a.wf = true) {g : Str × GeneModel} (hg : g ∈ a.genes)
    {tid : Str} (ht : tid ∈ g.2.transcripts) :
    ∃ m, dictGet a.txs tid = some m ∧ m.wf g.1 tid = true := by
  simp only [Anno.wf, Bool.and_eq_true, decide_eq_true_eq, List.all_eq_true] at h
  have := (h.2 g hg).2 tid ht
  cases hm : dictGet a.txs tid with
  | none => rw [hm] at this; cases this
  | some m => rw [hm] at this; exact ⟨m, rfl, this⟩

/-- look-up in the reloaded transcripts dict -/
theorem dictGet_reloaded {a : Anno} (h : a.wf = true) {g : Str × GeneModel} (hg : g ∈ a.genes)
    {tid : Str} (ht : tid ∈ g.2.transcripts) :
    ∃ m, dictGet a.txs tid = some m ∧ m.wf g.1 tid = true ∧
      dictGet (reloaded a).txs tid = some (reloadTx m) := by
  obtain ⟨m, hm, hw⟩ := Anno.wf_tx h hg ht
  obtain ⟨m', hm', hc⟩ := dictGet_canon h hg ht
  rw [hm] at hm'; cases hm'
  refine ⟨m, hm, hw, ?_⟩
  simp only [reloaded, dictGet_map_snd reloadTx, hc, Option.map_some]

theorem flatMap_congr' {α β : Type} {f g : α → List β} :
    ∀ {xs : List α}, (∀ x ∈ xs, f x = g x) → xs.flatMap f = xs.flatMap g
  | [], _ => rfl
  | x :: xs, h => by
    have ih : xs.flatMap f = xs.flatMap g := flatMap_congr' fun y hy => h y (by simp [hy])
    simp only [List.flatMap_cons, h x (by simp), ih]

theorem filterMap_congr' {α β : Type} {f g : α → Option β} :
    ∀ {xs : List α}, (∀ x ∈ xs, f x = g x) → xs.filterMap f = xs.filterMap g
  | [], _ => rfl
  | x :: xs, h => by
    have ih : xs.filterMap f = xs.filterMap g := filterMap_congr' fun y hy => h y (by simp [hy])
    simp only [List.filterMap_cons, h x (by simp), ih]

/-- **the reloaded annotation lists its transcripts gene by gene** (no hypothesis on the
transcript models beyond `Anno.wf`) -/
theorem reloaded_ordered {a : Anno} (h : a.wf = true) : (reloaded a).ordered = true := by
  have key : ∀ g ∈ a.genes,
      (g.2.transcripts.filterMap fun tid => (dictGet (reloaded a).txs tid).map fun m => (tid, m)) =
      (g.2.transcripts.filterMap fun tid => (dictGet a.txs tid).map fun m => (tid, m)).map
        fun kv => (kv.1, reloadTx kv.2) := by
    intro g hg
    rw [List.map_filterMap]
    apply filterMap_congr'
    intro tid ht
    obtain ⟨m, hm, _, hr⟩ := dictGet_reloaded h hg ht
    simp only [hr, hm, Option.map_some, Option.bind_some]
  have e : (reloaded a).canon.txs = (reloaded a).txs := by
    show a.genes.flatMap _ = (canonTxs a a.genes).map _
    rw [canonTxs, List.map_flatMap]
    exact flatMap_congr' key
  simp only [Anno.ordered, decide_eq_true_eq]
  show ({ genes := (reloaded a).genes, txs := (reloaded a).canon.txs } : Anno) = reloaded a
  rw [e]

/-- **closure, reduced to one transcript**: if writing and reloading the block of a well-formed
transcript model gives a well-formed and stable model, the reloaded annotation is
`wf ∧ ordered ∧ stable` -/
theorem reloaded_closed_of_tx {a : Anno} (h : a.wf = true)
    (H : ∀ gid tid m, m.wf gid tid = true →
      (reloadTx m).wf gid tid = true ∧ (reloadTx m).stable = true) :
    (reloaded a).wf = true ∧ (reloaded a).ordered = true ∧ (reloaded a).stable = true := by
  obtain ⟨h1, h2, h3⟩ := Anno.wf_iff h
  have hgen := h
  simp only [Anno.wf, Bool.and_eq_true, decide_eq_true_eq, List.all_eq_true] at hgen
  refine ⟨?_, reloaded_ordered h, ?_⟩
  · simp only [Anno.wf, Bool.and_eq_true, decide_eq_true_eq, List.all_eq_true]
    refine ⟨⟨h1, h2⟩, fun g hg => ⟨(hgen.2 g hg).1, fun tid ht => ?_⟩⟩
    obtain ⟨m, _, hw, hr⟩ := dictGet_reloaded h hg ht
    rw [hr]
    exact (H _ _ _ hw).1
  · simp only [Anno.stable, List.all_eq_true]
    intro kv hkv
    simp only [reloaded, List.mem_map] at hkv
    obtain ⟨kv0, hkv0, rfl⟩ := hkv
    rw [canon_txs] at hkv0
    simp only [canonTxs, List.mem_flatMap, List.mem_filterMap] at hkv0
    obtain ⟨g, hg, tid, ht, hk⟩ := hkv0
    obtain ⟨m, hm, hw⟩ := Anno.wf_tx h hg ht
    rw [hm] at hk
    simp only [Option.map_some, Option.some.injEq] at hk
    subst hk
    exact (H _ _ _ hw).2

/-- a stable well-formed transcript model is reloaded as itself -/
theorem reloadTx_of_stable {gid tid : Str} {m : TxModel} (h : m.wf gid tid = true)
    (hs : m.stable = true) : reloadTx m = m := by
  obtain ⟨t, w⟩ := TxWF.of_wf h
  exact reloadTx_exact w hs

/-! ## the writer reads the transcripts dict only through look-ups -/

theorem flatMapE_congr {α β : Type} {f g : α → Except GErr (List β)} :
    ∀ {xs : List α}, (∀ x ∈ xs, f x = g x) → flatMapE f xs = flatMapE g xs
  | [], _ => rfl
  | x :: xs, h => by
    have ih : flatMapE f xs = flatMapE g xs := flatMapE_congr fun y hy => h y (by simp [hy])
    simp only [flatMapE, h x (by simp), ih]

/-- two annotations with the same genes and the same entry for every listed transcript are
written as the same text -/
theorem writeGtf_congr {a b : Anno} (hg : b.genes = a.genes)
    (hl : ∀ g ∈ a.genes, ∀ tid ∈ g.2.transcripts, dictGet b.txs tid = dictGet a.txs tid) :
    writeGtf b = writeGtf a := by
  simp only [writeGtf, hg]
  apply flatMapE_congr
  intro g hgm
  simp only [writeGene]
  rw [flatMapE_congr (f := writeTxOf b) (g := writeTxOf a)
    (fun tid ht => by simp only [writeTxOf, hl g hgm tid ht])]

/-- `write` does not see the order of the transcripts dict -/
theorem writeGtf_canon {a : Anno} (h : a.wf = true) : writeGtf a.canon = writeGtf a :=
  writeGtf_congr rfl fun g hg tid ht => by
    obtain ⟨m, hm, hc⟩ := dictGet_canon h hg ht
    rw [hm, hc]

end MoPepGen.Gtf
