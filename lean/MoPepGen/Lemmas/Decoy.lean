import MoPepGen.Model.Decoy
/-! Helper lemmas for C20 (decoyFasta). -/
namespace MoPepGen.Decoy
open MoPepGen

/-! ### position selection -/

theorem selPos_perm {α : Type} (b : Nat → Bool) (l : List α) (p : Nat) :
    l.Perm (selPos b l p ++ selPos (fun i => !b i) l p) := by
  induction l generalizing p with
  | nil => simp [selPos]
  | cons x xs ih =>
    simp only [selPos]
    by_cases hb : b p = true
    · simp only [hb, if_true, Bool.not_true, Bool.false_eq_true, if_false, List.cons_append]
      exact (ih (p + 1)).cons x
    · simp only [Bool.not_eq_true] at hb
      simp only [hb, Bool.false_eq_true, if_false, Bool.not_false, if_true]
      exact ((ih (p + 1)).cons x).trans List.perm_middle.symm

/-- the selected elements are the elements at the selected indices -/
theorem selPos_eq_map {α : Type} (b : Nat → Bool) (d : α) (l pre : List α) :
    selPos b l pre.length =
      ((List.range' pre.length l.length).filter b).map (fun i => (pre ++ l).getD i d) := by
  induction l generalizing pre with
  | nil => simp [selPos]
  | cons x xs ih =>
    have h := ih (pre ++ [x])
    simp only [List.length_append, List.length_cons, List.length_nil, Nat.zero_add,
      List.append_assoc, List.singleton_append] at h
    simp only [selPos, List.length_cons, List.range'_succ, List.filter_cons]
    cases hb : b pre.length with
    | true =>
      simp only [if_true, List.map_cons, h]
      congr 1
      simp [List.getD_eq_getElem?_getD]
    | false =>
      simp only [Bool.false_eq_true, if_false, h]

theorem selPos_zero_eq_map (b : Nat → Bool) (d : Char) (l : Pep) :
    selPos b l 0 = ((List.range l.length).filter b).map (fun i => l.getD i d) := by
  have := selPos_eq_map b d l []
  simpa [List.range_eq_range'] using this

theorem movSub_eq_map (fixed : List Nat) (d : Char) (l : Pep) :
    movSub fixed l = (movable l.length fixed).map (fun i => l.getD i d) := by
  simp [movSub, movable, selPos_zero_eq_map _ d]

/-! ### the while loop -/

theorem addTail_eq (seq out : Pep) : addTail seq out = out ++ seq.drop out.length := by
  unfold addTail
  split
  · rfl
  · rw [List.drop_eq_nil_of_le (by omega)]; simp

/-- What the loop computes, for a `π` as long as the number of movable positions left and
in range: it does not raise, the completed output has the length of the input, carries the
input residue at every fixed position and the residues `seq[π[0]], seq[π[1]], …` at the
movable positions, in this order. -/
theorem loop_spec (seq : Pep) (fixed : List Nat) (d : Char) :
    ∀ (rest : Pep) (π : List Nat) (p : Nat),
      π.length = (selPos (fun i => !fixed.contains i) rest p).length →
      (∀ j ∈ π, j < seq.length) →
      ∃ o, loop seq fixed rest π p = some o ∧
        (o ++ rest.drop o.length).length = rest.length ∧
        selPos (fun i => fixed.contains i) (o ++ rest.drop o.length) p
          = selPos (fun i => fixed.contains i) rest p ∧
        selPos (fun i => !fixed.contains i) (o ++ rest.drop o.length) p
          = π.map (fun j => seq.getD j d) ∧
        (∀ k, fixed.contains (p + k) = true → (o ++ rest.drop o.length)[k]? = rest[k]?) := by
  intro rest
  induction rest with
  | nil =>
    intro π p hl _
    simp only [selPos, List.length_nil, List.length_eq_zero_iff] at hl
    subst hl
    exact ⟨[], by simp [loop, loopPast, selPos]⟩
  | cons c r ih =>
    intro π p hl hj
    cases π with
    | nil =>
      refine ⟨[], by simp [loop], by simp, by simp, ?_, by simp⟩
      simp only [List.length_nil] at hl
      have := List.eq_nil_of_length_eq_zero hl.symm
      simpa using this
    | cons j π' =>
      cases hf : fixed.contains p with
      | true =>
        simp only [selPos, hf, Bool.not_true, Bool.false_eq_true, if_false] at hl
        obtain ⟨o, ho, h1, h2, h3, h4⟩ := ih (j :: π') (p + 1) hl hj
        refine ⟨c :: o, by simp only [loop, hf, if_true, ho, Option.map_some], by simpa using h1, ?_, ?_, ?_⟩
        · simp only [List.length_cons, List.drop_succ_cons, List.cons_append, selPos, hf, if_true]
          rw [h2]
        · simp only [List.length_cons, List.drop_succ_cons, List.cons_append, selPos, hf,
            Bool.not_true, Bool.false_eq_true, if_false]
          exact h3
        · intro k hk
          cases k with
          | zero => simp
          | succ k =>
            have := h4 k (by rw [← hk]; congr 1; omega)
            simpa using this
      | false =>
        simp only [selPos, hf, Bool.not_false, if_true, List.length_cons, Nat.add_right_cancel_iff]
          at hl
        have hjl : j < seq.length := hj j (by simp)
        obtain ⟨o, ho, h1, h2, h3, h4⟩ :=
          ih π' (p + 1) hl (fun x hx => hj x (by simp [hx]))
        have hget : seq[j]? = some (seq.getD j d) := by
          rw [List.getD_eq_getElem?_getD, List.getElem?_eq_getElem hjl]; rfl
        refine ⟨seq.getD j d :: o, by simp only [loop, hf, Bool.false_eq_true, if_false, ho, hget], by simpa using h1, ?_, ?_, ?_⟩
        · simp only [List.length_cons, List.drop_succ_cons, List.cons_append, selPos, hf,
            Bool.false_eq_true, if_false]
          exact h2
        · simp only [List.length_cons, List.drop_succ_cons, List.cons_append, selPos, hf,
            Bool.not_false, if_true, List.map_cons]
          rw [h3]
        · intro k hk
          cases k with
          | zero => rw [Nat.add_zero, hf] at hk; cases hk
          | succ k =>
            have := h4 k (by rw [← hk]; congr 1; omega)
            simpa using this

theorem mem_movable {n : Nat} {fixed : List Nat} {j : Nat} :
    j ∈ movable n fixed ↔ j < n ∧ fixed.contains j = false := by
  simp only [movable, List.mem_filter, List.mem_range, Bool.not_eq_true']

/-- `reverse_sequence` / `shuffle_sequence` for any `π` that is a rearrangement of the movable
indices: no IndexError; same length; fixed positions carry the input residue; the movable
positions carry `seq[π[0]], seq[π[1]], …`; the result is a rearrangement of the input. -/
theorem weave_spec (seq : Pep) (fixed π : List Nat) (d : Char)
    (hπ : π.Perm (movable seq.length fixed)) :
    ∃ out, weave seq fixed π = some out ∧ out.length = seq.length ∧
      fixSub fixed out = fixSub fixed seq ∧
      movSub fixed out = π.map (fun j => seq.getD j d) ∧
      (∀ i, i ∈ fixed → out[i]? = seq[i]?) ∧ out.Perm seq := by
  have hlen : π.length = (selPos (fun i => !fixed.contains i) seq 0).length := by
    have := movSub_eq_map fixed d seq
    simp only [movSub] at this
    rw [this, List.length_map, hπ.length_eq]
  have hrange : ∀ j ∈ π, j < seq.length := fun j hj => (mem_movable.mp (hπ.mem_iff.mp hj)).1
  obtain ⟨o, ho, h1, h2, h3, h4⟩ := loop_spec seq fixed d seq π 0 hlen hrange
  refine ⟨o ++ seq.drop o.length, by simp only [weave, ho, Option.map_some, addTail_eq], h1,
    h2, h3, ?_, ?_⟩
  · intro i hi
    exact h4 i (by rw [Nat.zero_add]; exact List.contains_iff_mem.mpr hi)
  · have e1 := selPos_perm (fun i => fixed.contains i) (o ++ seq.drop o.length) 0
    have e2 := selPos_perm (fun i => fixed.contains i) seq 0
    rw [h2, h3] at e1
    have e3 : (π.map (fun j => seq.getD j d)).Perm
        (selPos (fun i => !fixed.contains i) seq 0) := by
      have := movSub_eq_map fixed d seq
      simp only [movSub] at this
      rw [this]
      exact hπ.map _
    exact e1.trans ((List.Perm.append_left _ e3).trans e2.symm)

/-! ### find_fixed_indices -/

theorem mem_scanFrom (c : Cfg) (n : Nat) (rest : Pep) (p i : Nat) :
    i ∈ c.scanFrom n rest p ↔ ∃ k ch, i = p + k ∧ rest[k]? = some ch ∧ c.keepAt n i ch = true := by
  induction rest generalizing p with
  | nil => simp [Cfg.scanFrom]
  | cons x xs ih =>
    have step : i ∈ c.scanFrom n (x :: xs) p ↔
        (i = p ∧ c.keepAt n p x = true) ∨ i ∈ c.scanFrom n xs (p + 1) := by
      simp only [Cfg.scanFrom]
      split
      · rename_i h; simp [h]
      · rename_i h; simp [h]
    rw [step, ih]
    constructor
    · rintro (⟨rfl, hk⟩ | ⟨k, ch, rfl, hget, hk⟩)
      · exact ⟨0, x, rfl, by simp, hk⟩
      · exact ⟨k + 1, ch, by omega, by simpa using hget, hk⟩
    · rintro ⟨k, ch, rfl, hget, hk⟩
      cases k with
      | zero =>
        simp only [List.getElem?_cons_zero, Option.some.injEq] at hget
        subst hget
        exact Or.inl ⟨rfl, hk⟩
      | succ k =>
        exact Or.inr ⟨k, ch, by omega, by simpa using hget, hk⟩

/-! ### ordering of sequences, sort -/

theorem ltSeq_irrefl (a : Pep) : ltSeq a a = false := by
  induction a with
  | nil => rfl
  | cons x xs ih => simp [ltSeq, ih]

theorem ltSeq_trans {a b c : Pep} (h1 : ltSeq a b = true) (h2 : ltSeq b c = true) :
    ltSeq a c = true := by
  induction a generalizing b c with
  | nil =>
    cases b with
    | nil => simp [ltSeq] at h1
    | cons y ys =>
      cases c with
      | nil => simp [ltSeq] at h2
      | cons z zs => rfl
  | cons x xs ih =>
    cases b with
    | nil => simp [ltSeq] at h1
    | cons y ys =>
      cases c with
      | nil => simp [ltSeq] at h2
      | cons z zs =>
        simp only [ltSeq, Bool.or_eq_true, decide_eq_true_eq, Bool.and_eq_true, beq_iff_eq] at *
        rcases h1 with h1 | ⟨e1, h1⟩
        · rcases h2 with h2 | ⟨e2, _⟩
          · left; omega
          · left; omega
        · rcases h2 with h2 | ⟨e2, h2⟩
          · left; omega
          · right; exact ⟨by omega, ih h1 h2⟩

theorem ltSeq_total {a b : Pep} (h1 : ltSeq a b = false) (h2 : ltSeq b a = false) : a = b := by
  induction a generalizing b with
  | nil =>
    cases b with
    | nil => rfl
    | cons y ys => simp [ltSeq] at h1
  | cons x xs ih =>
    cases b with
    | nil => simp [ltSeq] at h2
    | cons y ys =>
      simp only [ltSeq, Bool.or_eq_false_iff, decide_eq_false_iff_not, Bool.and_eq_false_iff,
        beq_eq_false_iff_ne, ne_eq] at h1 h2
      have hxy : x.toNat = y.toNat := by omega
      have e : x = y := Char.toNat_inj.mp hxy
      subst e
      rcases h1 with ⟨_, h1 | h1⟩
      · exact absurd rfl h1
      · rcases h2 with ⟨_, h2 | h2⟩
        · exact absurd rfl h2
        · rw [ih h1 h2]

/-- `a` is not after `b` in the sort order -/
def leRec (a b : Rec) : Prop := ltSeq b.seq a.seq = false

theorem insertRec_perm (x : Rec) (l : List Rec) : (insertRec x l).Perm (x :: l) := by
  induction l with
  | nil => simp [insertRec]
  | cons y ys ih =>
    simp only [insertRec]
    split
    · exact (ih.cons y).trans (List.Perm.swap x y ys)
    · exact List.Perm.refl _

theorem sortRecs_perm (l : List Rec) : (sortRecs l).Perm l := by
  induction l with
  | nil => simp [sortRecs]
  | cons x xs ih => exact (insertRec_perm x _).trans (ih.cons x)

theorem insertRec_sorted (x : Rec) (l : List Rec) (h : l.Pairwise leRec) :
    (insertRec x l).Pairwise leRec := by
  induction l with
  | nil => simp [insertRec]
  | cons y ys ih =>
    rw [List.pairwise_cons] at h
    simp only [insertRec]
    split
    · rename_i hlt
      rw [List.pairwise_cons]
      refine ⟨?_, ih h.2⟩
      intro z hz
      have hz' := (insertRec_perm x ys).mem_iff.mp hz
      rcases List.mem_cons.mp hz' with rfl | hz'
      · -- y < z  ⇒  ¬ z < y
        unfold leRec
        cases hc : ltSeq z.seq y.seq with
        | false => rfl
        | true =>
          have := ltSeq_trans hlt hc
          rw [ltSeq_irrefl] at this
          cases this
      · exact h.1 z hz'
    · rename_i hnl
      simp only [Bool.not_eq_true] at hnl
      rw [List.pairwise_cons]
      refine ⟨?_, List.pairwise_cons.mpr h⟩
      intro z hz
      rcases List.mem_cons.mp hz with rfl | hz
      · exact hnl
      · have hyz : ltSeq z.seq y.seq = false := h.1 z hz
        unfold leRec
        cases hc : ltSeq z.seq x.seq with
        | false => rfl
        | true =>
          cases hxy : ltSeq x.seq y.seq with
          | true =>
            have := ltSeq_trans hc hxy
            rw [hyz] at this; cases this
          | false =>
            have e := ltSeq_total hxy hnl
            rw [e, hyz] at hc; cases hc

theorem sortRecs_sorted (l : List Rec) : (sortRecs l).Pairwise leRec := by
  induction l with
  | nil => simp [sortRecs]
  | cons x xs ih => exact insertRec_sorted x _ ih

theorem eq_of_nodup_map_seq {l : List Rec} (h : (l.map (·.seq)).Nodup) {a b : Rec}
    (ha : a ∈ l) (hb : b ∈ l) (e : a.seq = b.seq) : a = b := by
  induction l with
  | nil => cases ha
  | cons x xs ih =>
    simp only [List.map_cons, List.nodup_cons, List.mem_map, not_exists, not_and] at h
    rcases List.mem_cons.mp ha with ea | ha'
    · rcases List.mem_cons.mp hb with eb | hb'
      · rw [ea, eb]
      · subst ea; exact absurd e.symm (h.1 b hb')
    · rcases List.mem_cons.mp hb with eb | hb'
      · subst eb; exact absurd e (h.1 a ha')
      · exact ih h.2 ha' hb'

/-- the sort does not depend on the input order when no two records share a sequence -/
theorem sortRecs_eq_of_perm {l l' : List Rec} (hp : l'.Perm l) (hn : (l.map (·.seq)).Nodup) :
    sortRecs l' = sortRecs l := by
  apply List.Perm.eq_of_pairwise (le := leRec) _ (sortRecs_sorted l') (sortRecs_sorted l)
    ((sortRecs_perm l').trans (hp.trans (sortRecs_perm l).symm))
  intro a b ha hb h1 h2
  have ha' : a ∈ l := hp.mem_iff.mp ((sortRecs_perm l').mem_iff.mp ha)
  have hb' : b ∈ l := (sortRecs_perm l).mem_iff.mp hb
  exact eq_of_nodup_map_seq hn ha' hb' (ltSeq_total h2 h1)

/-! ### generate_decoy_sequence -/

theorem shuffleSeq_some {seq : Pep} {fixed π : List Nat} {d : Pep}
    (h : shuffleSeq seq fixed π = some d) :
    π.Perm (movable seq.length fixed) ∧ weave seq fixed π = some d := by
  unfold shuffleSeq at h
  split at h
  · rename_i hp; exact ⟨List.isPerm_iff.mp hp, h⟩
  · cases h

theorem retry_spec (seq : Pep) (fixed : List Nat) (inPool : Pep → Bool) (maxAtt : Nat) :
    ∀ (perms : List (List Nat)) (a : Nat) (d : Pep) (a' : Nat) (ov : Bool) (rest : List (List Nat)),
      retry seq fixed inPool maxAtt a perms = some (d, a', ov, rest) →
        a < a' ∧ perms.length = rest.length + (a' - a) ∧ (a' = a + 1 ∨ a' ≤ maxAtt) ∧
        (ov = false → inPool d = false) ∧ (ov = true → inPool d = true ∧ maxAtt ≤ a') ∧
        ∃ π, π ∈ perms ∧ shuffleSeq seq fixed π = some d := by
  intro perms
  induction perms with
  | nil => intro a d a' ov rest h; simp [retry] at h
  | cons π ps ih =>
    intro a d a' ov rest h
    unfold retry at h
    cases hs : shuffleSeq seq fixed π with
    | none => simp [hs] at h
    | some d0 =>
      simp only [hs] at h
      cases hp : inPool d0 with
      | false =>
        simp only [hp, Bool.not_false, if_true, Option.some.injEq, Prod.mk.injEq] at h
        obtain ⟨rfl, rfl, rfl, rfl⟩ := h
        refine ⟨by omega, (by simp), Or.inl rfl, fun _ => hp, (fun h => by cases h),
          π, (by simp), hs⟩
      | true =>
        simp only [hp, Bool.not_true, Bool.false_eq_true, if_false] at h
        by_cases hm : a + 1 ≥ maxAtt
        · simp only [hm, if_true, Option.some.injEq, Prod.mk.injEq] at h
          obtain ⟨rfl, rfl, rfl, rfl⟩ := h
          refine ⟨by omega, (by simp), Or.inl rfl, (fun h => by cases h), fun _ => ⟨hp, hm⟩,
            π, (by simp), hs⟩
        · simp only [hm, if_false] at h
          obtain ⟨h1, h2, h3, h4, h5, π', hπ', h6⟩ := ih (a + 1) d a' ov rest h
          refine ⟨by omega, (by simp; omega), Or.inr (by omega), h4, h5, π', (by simp [hπ']), h6⟩

/-- every decoy sequence is `weave` of its target with a rearrangement of the movable indices -/
theorem genSeq_some {c : RunCfg} {tpool dpool : List Pep} {s : Pep} {perms perms' : List (List Nat)}
    {d : Pep} {ov : Bool} (h : genSeq c tpool dpool s perms = some (d, ov, perms')) :
    ∃ π, π.Perm (movable s.length (fixedIndices c.toCfg s)) ∧
      weave s (fixedIndices c.toCfg s) π = some d ∧
      (c.method = .reverse → π = (movable s.length (fixedIndices c.toCfg s)).reverse) := by
  unfold genSeq at h
  cases hm : c.method with
  | reverse =>
    simp only [hm, Option.map_eq_some_iff, Prod.mk.injEq] at h
    obtain ⟨d0, hd0, rfl, _, _⟩ := h
    exact ⟨_, List.reverse_perm _, hd0, fun _ => rfl⟩
  | shuffle =>
    simp only [hm, Option.map_eq_some_iff, Prod.mk.injEq] at h
    obtain ⟨⟨d0, a', ov0, rest⟩, hr, rfl, _, _⟩ := h
    obtain ⟨_, _, _, _, _, π, _, hπ⟩ := retry_spec _ _ _ _ _ _ _ _ _ _ hr
    obtain ⟨hp, hw⟩ := shuffleSeq_some hπ
    exact ⟨π, hp, hw, fun h => by cases h⟩

theorem genSeq_isDecoy {c : RunCfg} {tpool dpool : List Pep} {t : Rec} {perms perms' : List (List Nat)}
    {d : Pep} {ov : Bool} (h : genSeq c tpool dpool t.seq perms = some (d, ov, perms')) :
    IsDecoyOf c (fun s i => i ∈ fixedIndices c.toCfg s) t { hdr := decoyHeader c t.hdr, seq := d } := by
  obtain ⟨π, hp, hw, _⟩ := genSeq_some h
  obtain ⟨out, ho, hl, _, _, hk, hperm⟩ := weave_spec t.seq _ π ' ' hp
  rw [hw] at ho
  cases ho
  exact ⟨rfl, hperm, hl, hk⟩

theorem genAll_spec (c : RunCfg) (tpool : List Pep) :
    ∀ (T : List Rec) (dpool : List Pep) (perms : List (List Nat)) (D : List Rec) (n : Nat)
      (rest : List (List Nat)),
      genAll c tpool T dpool perms = some (D, n, rest) →
        Paired (IsDecoyOf c (fun s i => i ∈ fixedIndices c.toCfg s)) T D := by
  intro T
  induction T with
  | nil =>
    intro dpool perms D n rest h
    simp only [genAll, Option.some.injEq, Prod.mk.injEq] at h
    obtain ⟨rfl, _, _⟩ := h
    trivial
  | cons t ts ih =>
    intro dpool perms D n rest h
    unfold genAll at h
    cases hg : genSeq c tpool dpool t.seq perms with
    | none => simp [hg] at h
    | some r =>
      obtain ⟨d, ov, perms'⟩ := r
      simp only [hg] at h
      cases ha : genAll c tpool ts (d :: dpool) perms' with
      | none => simp [ha] at h
      | some r2 =>
        obtain ⟨ds, n2, rest2⟩ := r2
        simp only [ha, Option.some.injEq, Prod.mk.injEq] at h
        obtain ⟨rfl, _, _⟩ := h
        exact ⟨genSeq_isDecoy hg, ih _ _ _ _ _ ha⟩

theorem Paired.length_eq {R : Rec → Rec → Prop} : ∀ {T D : List Rec}, Paired R T D → D.length = T.length
  | [], [], _ => rfl
  | [], _ :: _, h => by cases h
  | _ :: _, [], h => by cases h
  | _ :: ts, _ :: ds, h => by simp [Paired.length_eq (T := ts) (D := ds) h.2]

theorem Paired.get {R : Rec → Rec → Prop} : ∀ {T D : List Rec}, Paired R T D →
    ∀ (k : Nat) (t d : Rec), T[k]? = some t → D[k]? = some d → R t d
  | [], [], _ => by intro k t d h; simp at h
  | [], _ :: _, h => by cases h
  | _ :: _, [], h => by cases h
  | _ :: ts, _ :: ds, h => by
    intro k t d ht hd
    cases k with
    | zero =>
      simp only [List.getElem?_cons_zero, Option.some.injEq] at ht hd
      subst ht hd; exact h.1
    | succ k =>
      simp only [List.getElem?_cons_succ] at ht hd
      exact Paired.get (T := ts) (D := ds) h.2 k t d ht hd

theorem interleave_spec : ∀ (T D : List Rec), D.length = T.length →
    (interleave T D).length = 2 * T.length ∧
    ∀ k, (interleave T D)[2 * k]? = T[k]? ∧ (interleave T D)[2 * k + 1]? = D[k]?
  | [], [], _ => by simp [interleave]
  | [], _ :: _, h => by simp at h
  | _ :: _, [], h => by simp at h
  | t :: ts, d :: ds, h => by
    have ih := interleave_spec ts ds (by simpa using h)
    refine ⟨(by simp [interleave, ih.1]; omega), ?_⟩
    intro k
    cases k with
    | zero => simp [interleave]
    | succ k =>
      have e1 : 2 * (k + 1) = 2 * k + 1 + 1 := by omega
      rw [e1]
      simp only [interleave, List.getElem?_cons_succ]
      exact ih.2 k

end MoPepGen.Decoy
