import MoPepGen.Model.WingsLocal
import MoPepGen.Lemmas.Regex
import MoPepGen.Lemmas.Pairing
/-! Helper lemmas for the local range search (Model/WingsLocal.lean). -/
namespace MoPepGen

/-- `search` succeeds iff the expression matches positionally somewhere in the string -/
theorem Re.search_iff (r : Re) (t : Pep) : r.search t = true ↔ ∃ i, r.matchAt t i = true := by
  simp only [Re.search, Re.finditer, finditerFrom_eq]
  constructor
  · intro h
    cases hf : (List.filter (r.matchAt t) (List.range' 0 t.length)) with
    | nil => simp [hf] at h
    | cons x xs =>
      have : x ∈ List.filter (r.matchAt t) (List.range' 0 t.length) := by rw [hf]; simp
      exact ⟨x, (List.mem_filter.mp this).2⟩
  · rintro ⟨i, hi⟩
    have hlt := Re.matchAt_lt hi
    have : i ∈ List.filter (r.matchAt t) (List.range' 0 t.length) := by
      simp only [List.mem_filter, List.mem_range'_1]
      exact ⟨⟨by omega, by omega⟩, hi⟩
    cases hf : (List.filter (r.matchAt t) (List.range' 0 t.length)) with
    | nil => rw [hf] at this; cases this
    | cons x xs => simp

theorem Re.search_false_iff (r : Re) (t : Pep) : r.search t = false ↔ ∀ i, r.matchAt t i = false := by
  rw [← Bool.not_eq_true, Re.search_iff]
  simp

/-! ### the loop: fuel -/

theorem localLoop_mono (p : Re) (s : Pep) (site upper lower : Int) (fuel : Nat) (u l : Int)
    (r : Int × Int × Bool) (h : localLoop p s site upper lower fuel u l = some r) :
    localLoop p s site upper lower (fuel + 1) u l = some r := by
  induction fuel generalizing u l with
  | zero => simp [localLoop] at h
  | succ n ih =>
    rw [localLoop] at h
    rw [localLoop]
    split
    · rename_i h1; simp only [h1, if_true] at h; exact h
    · rename_i h1
      simp only [h1] at h
      split
      · rename_i h2; simp only [h2, if_true] at h; exact h
      · rename_i h2
        simp only [h2] at h
        exact ih _ _ h

theorem localLoop_mono_le (p : Re) (s : Pep) (site upper lower : Int) (fuel fuel' : Nat) (u l : Int)
    (r : Int × Int × Bool) (hle : fuel ≤ fuel') (h : localLoop p s site upper lower fuel u l = some r) :
    localLoop p s site upper lower fuel' u l = some r := by
  induction hle with
  | refl => exact h
  | step _ ih => exact localLoop_mono _ _ _ _ _ _ _ _ _ ih

/-- every pass widens `[ucur, lcur)` by one and the loop breaks as soon as the segment is
wider than the window: `lower - upper + 1 - (lcur - ucur)` passes at most -/
theorem localLoop_isSome (p : Re) (s : Pep) (site upper lower : Int) (fuel : Nat) (u l : Int)
    (h : (lower - upper + 1 - (l - u)).toNat < fuel) :
    (localLoop p s site upper lower fuel u l).isSome = true := by
  induction fuel generalizing u l with
  | zero => omega
  | succ n ih =>
    rw [localLoop]
    by_cases h1 : inWin upper lower u l = true
    · by_cases h2 : p.search (slice s u.toNat l.toNat) = true
      · simp [h1, h2]
      · simp only [h1, h2, Bool.not_true, Bool.false_eq_true, if_false]
        simp only [inWin, Bool.and_eq_true, decide_eq_true_eq] at h1
        apply ih
        simp only [localStep]
        split <;> (simp only; omega)
    · simp [h1]

/-! ### the loop: what it returns, in terms of the schedule -/

theorem localSched_shift (site lower : Int) (c : Int × Int) (k : Nat) :
    localSched site lower c (k + 1) = localSched site lower (localStep site lower c) k := by
  induction k with
  | zero => rfl
  | succ n ih => rw [localSched, ih]; rfl

theorem localLoop_spec (p : Re) (s : Pep) (site upper lower : Int) (fuel : Nat) (u l : Int)
    (u' l' : Int) (f : Bool) (h : localLoop p s site upper lower fuel u l = some (u', l', f)) :
    ∃ k, k < fuel ∧ localSched site lower (u, l) k = (u', l') ∧
      NoHitBefore p s site upper lower (u, l) k ∧
      (if f then inWin upper lower u' l' = true ∧ p.search (segOf s (u', l')) = true
       else inWin upper lower u' l' = false) := by
  induction fuel generalizing u l with
  | zero => simp [localLoop] at h
  | succ n ih =>
    rw [localLoop] at h
    by_cases h1 : inWin upper lower u l = true
    · by_cases h2 : p.search (slice s u.toNat l.toNat) = true
      · simp only [h1, h2, Bool.not_true, Bool.false_eq_true, if_false, if_true, Option.some.injEq,
          Prod.mk.injEq] at h
        obtain ⟨rfl, rfl, rfl⟩ := h
        exact ⟨0, by omega, rfl, fun j hj => by omega, by simp [h1, segOf, h2]⟩
      · simp only [h1, h2, Bool.not_true, Bool.false_eq_true, if_false] at h
        obtain ⟨k, hk, hs, hn, hf⟩ := ih _ _ h
        refine ⟨k + 1, by omega, ?_, ?_, hf⟩
        · rw [localSched_shift]; exact hs
        · intro j hj
          cases j with
          | zero =>
            simp only [localSched]
            exact ⟨h1, by simpa [segOf] using h2⟩
          | succ j =>
            rw [localSched_shift]
            exact hn j (by omega)
    · simp only [h1, Bool.not_false, if_true, Option.some.injEq, Prod.mk.injEq] at h
      obtain ⟨rfl, rfl, rfl⟩ := h
      simp only [Bool.not_eq_true] at h1
      exact ⟨0, by omega, rfl, fun j hj => by omega, by simp [h1]⟩

/-! ### schedule: monotone, first exit unique, closed form -/

theorem localSched_succ_mono (site lower : Int) (c0 : Int × Int) (k : Nat) :
    (localSched site lower c0 (k + 1)).1 ≤ (localSched site lower c0 k).1 ∧
    (localSched site lower c0 k).2 ≤ (localSched site lower c0 (k + 1)).2 := by
  simp only [localSched, localStep]
  split <;> (simp only; omega)

theorem localSched_mono (site lower : Int) (c0 : Int × Int) (k j : Nat) (h : k ≤ j) :
    (localSched site lower c0 j).1 ≤ (localSched site lower c0 k).1 ∧
    (localSched site lower c0 k).2 ≤ (localSched site lower c0 j).2 := by
  induction h with
  | refl => omega
  | step _ ih =>
    rename_i m _
    have := localSched_succ_mono site lower c0 m
    simp only [Nat.succ_eq_add_one] at *
    omega

/-- every pass widens the segment by exactly one residue -/
theorem localSched_width (site lower : Int) (c0 : Int × Int) (k : Nat) :
    (localSched site lower c0 k).2 - (localSched site lower c0 k).1 = c0.2 - c0.1 + k := by
  induction k with
  | zero => simp [localSched]
  | succ n ih =>
    simp only [localSched, localStep]
    split <;> (simp only; omega)

/-- the pass at which the loop is left (break or pattern found) is unique -/
theorem firstExit_unique (p : Re) (s : Pep) (site upper lower : Int) (c0 : Int × Int) (k k' : Nat)
    (h1 : NoHitBefore p s site upper lower c0 k)
    (e1 : inWin upper lower (localSched site lower c0 k).1 (localSched site lower c0 k).2 = false ∨
      p.search (segOf s (localSched site lower c0 k)) = true)
    (h2 : NoHitBefore p s site upper lower c0 k')
    (e2 : inWin upper lower (localSched site lower c0 k').1 (localSched site lower c0 k').2 = false ∨
      p.search (segOf s (localSched site lower c0 k')) = true) : k = k' := by
  rcases Nat.lt_trichotomy k k' with h | h | h
  · have := h2 k h
    rcases e1 with e | e <;> simp_all
  · exact h
  · have := h1 k' h
    rcases e2 with e | e <;> simp_all

theorem localSched_closed (site : Int) (b0 B : Nat) (h0 : b0 ≤ 1) (hB : b0 ≤ B) (k : Nat) :
    localSched site (site + (B : Int)) (site - ((1 - b0 : Nat) : Int), site + (b0 : Int)) k =
      localSchedClosed site b0 B k := by
  induction k with
  | zero =>
    simp only [localSched, localSchedClosed]
    refine Prod.ext ?_ ?_ <;> (simp only; omega)
  | succ n ih =>
    simp only [localSched, ih, localStep, localSchedClosed]
    split <;> refine Prod.ext ?_ ?_ <;> (simp only; omega)

/-! ### results of `getLocalMatchedRange` in terms of the loop -/

theorem getLocal_some_iff (p : Re) (s : Pep) (site : Nat) (w : Nat × Nat) (u l : Nat) :
    getLocalMatchedRange p s site w = some (some (u, l)) ↔
      ∃ u' l', localLoop p s site (localUpper site w) (localLower s site w) (localFuel w)
        (localStart site w).1 (localStart site w).2 = some (u', l', true) ∧
        u = u'.toNat ∧ l = l'.toNat := by
  simp only [getLocalMatchedRange]
  split
  · simp_all
  · rename_i u' l' h
    simp only [h, Option.some.injEq, Prod.mk.injEq]
    constructor
    · rintro ⟨rfl, rfl⟩; exact ⟨u', l', ⟨rfl, rfl, trivial⟩, rfl, rfl⟩
    · rintro ⟨a, b, ⟨rfl, rfl, -⟩, rfl, rfl⟩; exact ⟨rfl, rfl⟩
  · rename_i u' l' h
    simp [h]

theorem getLocal_raise_iff (p : Re) (s : Pep) (site : Nat) (w : Nat × Nat) :
    getLocalMatchedRange p s site w = some none ↔
      ∃ u' l', localLoop p s site (localUpper site w) (localLower s site w) (localFuel w)
        (localStart site w).1 (localStart site w).2 = some (u', l', false) := by
  simp only [getLocalMatchedRange]
  split
  · simp_all
  · rename_i u' l' h
    simp [h]
  · rename_i u' l' h
    simp [h]

theorem localStart_measure (s : Pep) (site : Nat) (w : Nat × Nat) :
    (localLower s site w - localUpper site w + 1 -
      ((localStart site w).2 - (localStart site w).1)).toNat < localFuel w := by
  simp only [localLower, localUpper, localStart, localFuel]
  split <;> (simp only; omega)

/-! ### covering + balanced wings: the loop cannot break before it has covered the target -/

/-- If every in-window segment covering the target `[ra, rb)` carries a match, the target lies in
the window and does not reach further right of the site than left, then from any in-window
cursor pair the loop ends with `pattern_found`. -/
theorem localLoop_finds (p : Re) (s : Pep) (site upper lower ra rb : Int)
    (hcov : ∀ u l : Int, upper ≤ u → u ≤ ra → rb ≤ l → l ≤ lower →
      p.search (slice s u.toNat l.toNat) = true)
    (hbal : rb - site ≤ site - ra) (hA : upper ≤ ra) (hB : rb ≤ lower)
    (fuel : Nat) (u l : Int) (hin : inWin upper lower u l = true)
    (r : Int × Int × Bool) (h : localLoop p s site upper lower fuel u l = some r) :
    r.2.2 = true := by
  induction fuel generalizing u l with
  | zero => simp [localLoop] at h
  | succ n ih =>
    rw [localLoop] at h
    by_cases h2 : p.search (slice s u.toNat l.toNat) = true
    · simp only [hin, h2, Bool.not_true, Bool.false_eq_true, if_false, if_true,
        Option.some.injEq] at h
      subst h; rfl
    · simp only [hin, h2, Bool.not_true, Bool.false_eq_true, if_false] at h
      refine ih _ _ ?_ h
      have hin' := hin
      simp only [inWin, Bool.and_eq_true, decide_eq_true_eq] at hin'
      have hnc : ¬ (u ≤ ra ∧ rb ≤ l) := fun hc => h2 (hcov u l hin'.1.1 hc.1 hc.2 hin'.2)
      simp only [localStep, inWin, Bool.and_eq_true, decide_eq_true_eq]
      split <;> (simp only; omega)

/-! ### a match inside a segment = a match of the whole string whose window lies in the segment -/

theorem slice_getElem? (s : Pep) (u l m : Nat) :
    (slice s u l)[m]? = if m < l - u then s[u + m]? else none := by
  simp only [slice, List.getElem?_take, List.getElem?_drop]

theorem slice_length (s : Pep) (u l : Nat) (h : l ≤ s.length) : (slice s u l).length = l - u := by
  simp only [slice, List.length_take, List.length_drop]; omega

/-- An alternative matches inside `s[u:l)` at offset `i` iff it matches in `s` at `u + i` with its
whole window (look-behind, consumed residue, look-ahead) inside `[u, l)`. -/
theorem Alt.matchAt_slice (a : Alt) (s : Pep) (u l i : Nat) (hl : l ≤ s.length) :
    a.matchAt (slice s u l) i = true ↔
      a.matchAt s (u + i) = true ∧ a.lb.length ≤ i ∧ u + i + 1 + a.la.length ≤ l := by
  constructor
  · intro h
    have hlb := ((Alt.matchAt_iff a _ i).mp h).1
    have hlen := clsSeq_length ((Alt.matchAt_iff a _ i).mp h).2
    rw [Alt.flat_length, List.length_drop, slice_length s u l hl] at hlen
    simp only [Alt.width] at hlen
    refine ⟨?_, hlb, by omega⟩
    rw [← Alt.matchAt_congr a (slice s u l) s i (u + i) hlb (by omega)]
    · exact h
    · intro k hk
      simp only [Alt.width] at hk
      rw [slice_getElem?, if_pos (by omega)]
      congr 1; omega
  · rintro ⟨h, hlb, hr⟩
    rw [Alt.matchAt_congr a (slice s u l) s i (u + i) hlb (by omega)]
    · exact h
    · intro k hk
      simp only [Alt.width] at hk
      rw [slice_getElem?, if_pos (by omega)]
      congr 1; omega

/-- `p.search(seq[u:l])` succeeds iff some alternative matches in `seq` with its whole window
inside `[u, l)`. -/
theorem Re.search_slice_iff (r : Re) (s : Pep) (u l : Nat) (hl : l ≤ s.length) :
    r.search (slice s u l) = true ↔
      ∃ a, a ∈ r ∧ ∃ j, a.matchAt s j = true ∧ u + a.lb.length ≤ j ∧ j + 1 + a.la.length ≤ l := by
  rw [Re.search_iff]
  simp only [Re.matchAt, List.any_eq_true]
  constructor
  · rintro ⟨i, a, ha, hm⟩
    obtain ⟨h1, h2, h3⟩ := (Alt.matchAt_slice a s u l i hl).mp hm
    exact ⟨a, ha, u + i, h1, by omega, by omega⟩
  · rintro ⟨a, ha, j, hm, h1, h2⟩
    refine ⟨j - u, a, ha, (Alt.matchAt_slice a s u l (j - u) hl).mpr ⟨?_, by omega, by omega⟩⟩
    have : u + (j - u) = j := by omega
    rw [this]; exact hm

/-- a wider segment finds whatever a narrower one finds -/
theorem Re.search_slice_mono (r : Re) (s : Pep) (u l u' l' : Nat) (hl : l' ≤ s.length)
    (hu : u' ≤ u) (hll : l ≤ l') (h : r.search (slice s u l) = true) :
    r.search (slice s u' l') = true := by
  rw [Re.search_slice_iff r s u l (by omega)] at h
  rw [Re.search_slice_iff r s u' l' hl]
  obtain ⟨a, ha, j, hm, h1, h2⟩ := h
  exact ⟨a, ha, j, hm, by omega, by omega⟩

/-! ### the `for s in sites` loop -/

theorem localSitesLoop_ok (rule : Re) (ex : List Nat) (w : Nat × Nat) (s : Pep) (xs : List Nat)
    (l : List (Nat × (Nat × Nat))) (h : localSitesLoop rule ex w s xs = .ok l) :
    l.map (·.1) = xs.filter (fun x => !ex.contains x) ∧
    ∀ q, q ∈ l → getLocalMatchedRange rule s q.1 w = some (some q.2) := by
  induction xs generalizing l with
  | nil => simp only [localSitesLoop, Except.ok.injEq] at h; subst h; simp
  | cons x xs ih =>
    rw [localSitesLoop] at h
    by_cases hx : ex.contains x = true
    · simp only [hx, if_true] at h
      have := ih l h
      simp only [List.filter_cons, hx, Bool.not_true, Bool.false_eq_true, if_false]
      exact this
    · simp only [Bool.not_eq_true] at hx
      simp only [hx, Bool.false_eq_true, if_false] at h
      cases hg : getLocalMatchedRange rule s x w with
      | none => simp [hg] at h
      | some o =>
        cases o with
        | none => simp [hg] at h
        | some r =>
          simp only [hg] at h
          cases hl : localSitesLoop rule ex w s xs with
          | error e => simp [hl] at h
          | ok l' =>
            simp only [hl, Except.ok.injEq] at h
            subst h
            have := ih l' hl
            simp only [List.map_cons, List.filter_cons, hx, Bool.not_false, if_true, this.1,
              List.mem_cons, true_and]
            rintro q (rfl | hq)
            · exact hg
            · exact this.2 q hq

theorem localSitesLoop_total (rule : Re) (ex : List Nat) (w : Nat × Nat) (s : Pep) (xs : List Nat)
    (h : ∀ x, x ∈ xs → ∃ r, getLocalMatchedRange rule s x w = some (some r)) :
    ∃ l, localSitesLoop rule ex w s xs = .ok l := by
  induction xs with
  | nil => exact ⟨[], rfl⟩
  | cons x xs ih =>
    obtain ⟨l, hl⟩ := ih (fun y hy => h y (List.mem_cons_of_mem _ hy))
    rw [localSitesLoop]
    by_cases hx : ex.contains x = true
    · simp only [hx, if_true]; exact ⟨l, hl⟩
    · obtain ⟨r, hr⟩ := h x (List.mem_cons_self)
      simp only [Bool.not_eq_true] at hx
      simp only [hx, Bool.false_eq_true, if_false, hr, hl]
      exact ⟨_, rfl⟩

end MoPepGen
