import MoPepGen.Lemmas.Fusion
import MoPepGen.Spec.CallVariant
/-! Helper lemmas for the callVariant clause of property C15: the four stretches of the fusion
transcript (`FusionSpec.fusedParts`) and the definitional layer (`Spec.callBackbone`) evaluated
without small records. -/
namespace MoPepGen.Fusion
open MoPepGen MoPepGen.FusionSpec

/-! ## where the retained intronic positions sit -/

/-- in a list sorted by `R`: if "`P` fails" is inherited by every later element, then everything
from the first failure on fails -/
theorem dropWhile_all_false {α : Type} {R : α → α → Prop} {P : α → Bool} {l : List α}
    (hl : l.Pairwise R) (hf : ∀ a ∈ l, ∀ b ∈ l, R a b → P a = false → P b = false) :
    ∀ q ∈ l.dropWhile P, P q = false := by
  induction l with
  | nil => intro q hq; cases hq
  | cons a l ih =>
    rw [List.pairwise_cons] at hl
    intro q hq
    cases hpa : P a with
    | true =>
      rw [List.dropWhile_cons_of_pos (by simpa using hpa)] at hq
      exact ih hl.2 (fun x hx y hy => hf x (List.mem_cons_of_mem _ hx) y (List.mem_cons_of_mem _ hy))
        q hq
    | false =>
      rw [List.dropWhile_cons_of_neg (by simp [hpa])] at hq
      rcases List.mem_cons.mp hq with rfl | hq'
      · exact hpa
      · exact hf a List.mem_cons_self q (List.mem_cons_of_mem _ hq') (hl.1 q hq') hpa

theorem takeWhile_all_true {α : Type} {P : α → Bool} {l : List α} :
    ∀ q ∈ l.takeWhile P, P q = true := by
  induction l with
  | nil => intro q hq; cases hq
  | cons a l ih =>
    intro q hq
    cases hpa : P a with
    | true =>
      rw [List.takeWhile_cons_of_pos (by simpa using hpa)] at hq
      rcases List.mem_cons.mp hq with rfl | hq'
      · exact hpa
      · exact ih q hq'
    | false =>
      rw [List.takeWhile_cons_of_neg (by simp [hpa])] at hq
      cases hq

/-- donor side: behind a retained intronic position (towards the breakpoint) nothing is exonic -/
theorem donor_intron_inherits {n : Nat} {t : Transcript} {p : Nat} (hp : p < n) :
    ∀ a ∈ donorPositions n t p, ∀ b ∈ donorPositions n t p, before t.strand a b →
      isExonic t a = false → isExonic t b = false := by
  intro a ha b hb hab hxa
  obtain ⟨hra, hsa, _⟩ := (mem_donorPositions hp).mp ha
  obtain ⟨_, hsb, _⟩ := (mem_donorPositions hp).mp hb
  rcases retained_iff.mp hra with h | h
  · rw [hxa] at h; cases h
  · apply h b
    · revert hab hsa hsb; cases t.strand <;> simp only [before] <;> omega
    · revert hab hsa hsb; cases t.strand <;> simp only [before] <;> omega

/-- acceptor side: behind an exonic position (away from the breakpoint) everything retained is
exonic -/
theorem acceptor_exon_inherits {n : Nat} {t : Transcript} {p : Nat} (hp : p < n) :
    ∀ a ∈ acceptorPositions n t p, ∀ b ∈ acceptorPositions n t p, before t.strand a b →
      (!isExonic t a) = false → (!isExonic t b) = false := by
  intro a ha b hb hab hxa
  obtain ⟨_, hsa, _⟩ := (mem_acceptorPositions hp).mp ha
  obtain ⟨hrb, hsb, _⟩ := (mem_acceptorPositions hp).mp hb
  simp only [Bool.not_eq_false'] at hxa ⊢
  rcases retained_iff.mp hrb with h | h
  · exact h
  · have : isExonic t a = false := by
      apply h a
      · revert hab hsa hsb; cases t.strand <;> simp only [before] <;> omega
      · revert hab hsa hsb; cases t.strand <;> simp only [before] <;> omega
    rw [hxa] at this; cases this

end MoPepGen.Fusion

namespace MoPepGen.Spec

/-! ## the definitional layer without small records -/

theorem haplotypes_nil (t : TxIn) : haplotypes t [] = [] := rfl

theorem applyHap_nil (seq : List Char) : applyHap seq [] = seq := rfl

theorem secAfter_nil (sec : List Nat) : secAfter sec [] = sec := by
  unfold secAfter
  induction sec with
  | nil => rfl
  | cons s ss ih =>
    simp only [List.filterMap_cons, List.any_nil, Bool.false_eq_true, if_false, List.foldl_nil,
      Int.add_zero, Int.toNat_natCast]
    exact congrArg _ ih

theorem orfLimit_nil (l : Option Nat) :
    (l.map fun l => ((l : Int) + ([] : List Var).foldl (fun acc v =>
      if v.stop ≤ l then acc + (v.alt.length : Int) - (v.ref.length : Int) else acc) 0).toNat) = l := by
  cases l with
  | none => rfl
  | some l => simp

/-- without small records the backbone set is: the peptide forms of the backbone itself, minus
`deny`, minus the canonical pool -/
theorem callBackbone_nil (g : Cfg) (t : TxIn) (deny : List Pep) :
    callBackbone g t [] deny =
      (peptidesOf g t t.seq t.sec t.endNF).filter fun p =>
        !deny.contains p && !g.canonical.contains p := by
  unfold callBackbone
  simp only [haplotypes_nil, List.flatMap_cons, List.flatMap_nil, List.append_nil, applyHap_nil,
    secAfter_nil, orfLimit_nil]

end MoPepGen.Spec
