/-
Completeness half of "the graph of `create_variant_graph` IS the position automaton"
(`Model/Tvg.lean`, `Model/TvgLang.lean`): under the partition invariant of `Lemmas/Tvg.lean`
every ascending, strictly separated list of records that is `attached` along the frames has a
maximal path that takes exactly these records — walk the reference nodes of the frame from left
to right up to the node ending at the record's start, step into its variant node, continue from
the reference node its `variant_end` edge leads to (in whatever frame that is).  Conversely the
records of every maximal path are `attached`.
-/
import MoPepGen.Model.TvgLang
import MoPepGen.Lemmas.TvgLoop
import MoPepGen.Lemmas.TvgDelta
import MoPepGen.Lemmas.Spec
import MoPepGen.Lemmas.Haplotype
namespace MoPepGen.Tvg
open MoPepGen MoPepGen.Spec MoPepGen.Graph

/-! ### the decidable predicates, as propositions -/

theorem isVarOf_iff {n : TNode} {g : Nat} {v : Var} :
    isVarOf n g v = true ↔ ∃ r sq, n = ⟨g, .var r, sq⟩ ∧ r.toVar = v := by
  obtain ⟨rf, kind, sq⟩ := n
  cases kind with
  | root => simp [isVarOf]
  | ref a b => simp [isVarOf]
  | var r =>
    simp only [isVarOf, Bool.and_eq_true, beq_iff_eq, TNode.mk.injEq, NKind.var.injEq]
    constructor
    · rintro ⟨rfl, h⟩; exact ⟨r, sq, ⟨rfl, rfl, rfl⟩, h⟩
    · rintro ⟨r', sq', ⟨rfl, rfl, rfl⟩, h⟩; exact ⟨rfl, h⟩

theorem carries_iff {s : TState} {g : Nat} {v : Var} :
    carries s g v = true ↔ ∃ k r, IsVar s k g r ∧ r.toVar = v := by
  simp only [carries, List.any_eq_true, isVarOf_iff]
  constructor
  · rintro ⟨n, hn, r, sq, rfl, hr⟩
    obtain ⟨k, hk⟩ := List.getElem?_of_mem hn
    exact ⟨k, r, ⟨sq, hk⟩, hr⟩
  · rintro ⟨k, r, ⟨sq, hk⟩, hr⟩
    exact ⟨_, List.mem_of_getElem? hk, r, sq, rfl, hr⟩

theorem mem_bridgeFrames {s : TState} {g g' : Nat} {v : Var} :
    g' ∈ bridgeFrames s g v ↔
      ∃ e ∈ s.edges, (∃ r, IsVar s e.src g r ∧ r.toVar = v) ∧ nodeFrame s e.dst = g' := by
  simp only [bridgeFrames, List.mem_map, List.mem_filter]
  constructor
  · rintro ⟨e, ⟨he, hsrc⟩, rfl⟩
    refine ⟨e, he, ?_, rfl⟩
    split at hsrc
    · rename_i n hn
      obtain ⟨r, sq, rfl, hr⟩ := isVarOf_iff.mp hsrc
      exact ⟨r, ⟨sq, hn⟩, hr⟩
    · cases hsrc
  · rintro ⟨e, he, ⟨r, ⟨sq, hn⟩, hr⟩, rfl⟩
    refine ⟨e, ⟨he, ?_⟩, rfl⟩
    rw [hn]
    exact isVarOf_iff.mpr ⟨r, sq, rfl, hr⟩

theorem attached_cons {s : TState} {g : Nat} {v : Var} {rest : List Var} :
    attached s g (v :: rest) = true ↔
      carries s g v = true ∧ (rest = [] ∨ ∃ g' ∈ bridgeFrames s g v, attached s g' rest = true) := by
  simp only [attached, Bool.and_eq_true, Bool.or_eq_true, List.isEmpty_iff, List.any_eq_true]

/-! ### edges out of / into a variant node -/

/-- every edge out of the variant node of `v` is a `variant_end` edge to a reference node that
starts at `v.stop` -/
theorem Inv.var_outEdge {t : List Char} {s : TState} (hI : Inv t s) {k f : Nat} {v : Rec}
    (hk : IsVar s k f v) {e : TEdge} (he : e ∈ s.edges) (hsrc : e.src = k) :
    e.ty = .variantEnd ∧ ∃ g d, IsRef s e.dst g v.stop d := by
  have hok := hI.edgeOk e he
  obtain ⟨src, dst, ty⟩ := e
  simp only at hsrc; subst hsrc
  cases ty <;> simp only [EdgeOk] at hok
  · rcases hok with ⟨_, _, _, _, h1, _⟩ | ⟨_, _, _, h1, _⟩ | ⟨_, _, h1, _⟩
    · exact (h1.not_var hk).elim
    · exact (hk.not_null h1).elim
    · exact (hk.not_null h1).elim
  · obtain ⟨_, _, _, _, h1, _, _⟩ := hok
    exact (h1.not_var hk).elim
  · obtain ⟨f', v', g, c, d, h1, h2, h3⟩ := hok
    obtain ⟨rfl, rfl⟩ := hk.inj h1
    exact ⟨rfl, g, d, h3 ▸ h2⟩

/-- a variant node whose record reaches the end of the transcript has no out-edge -/
theorem Inv.var_no_outEdge {t : List Char} {s : TState} (hI : Inv t s) {k f : Nat} {v : Rec}
    (hk : IsVar s k f v) (hstop : t.length ≤ v.stop) : outEdges s k = [] := by
  apply List.eq_nil_iff_forall_not_mem.mpr
  intro e he
  obtain ⟨h1, h2⟩ := mem_outEdges.mp he
  obtain ⟨_, g, d, hr⟩ := hI.var_outEdge hk h1 h2
  have := hI.ref_ok hr
  omega

/-- the variant node of `v` in frame `f` hangs from THE reference node of frame `f` that ends at
`v.start` -/
theorem var_inEdge {t : List Char} {s : TState} (hI : Inv t s) (hL : VarLinked t s) {k f : Nat}
    {v : Rec} (hk : IsVar s k f v) :
    ∃ j a, IsRef s j f a v.start ∧ (⟨j, k, .variantStart⟩ : TEdge) ∈ s.edges := by
  obtain ⟨⟨e, he, hd, hty⟩, _⟩ := hL k f v hk (by simp)
  have hok := hI.edgeOk e he
  obtain ⟨src, dst, ty⟩ := e
  simp only at hd hty; subst hd; subst hty
  simp only [EdgeOk] at hok
  obtain ⟨f', a, b, v', h1, h2, h3⟩ := hok
  obtain ⟨rfl, rfl⟩ := hk.inj h2
  exact ⟨src, a, h3 ▸ h1, he⟩

/-- a reference node of frame `g` that starts before the end `c` of another one ends at or
before `c` -/
theorem Inv.ref_end_le {t : List Char} {s : TState} (hI : Inv t s) {i j g a b a' c : Nat}
    (hi : IsRef s i g a b) (hj : IsRef s j g a' c) (hac : a < c) : b ≤ c := by
  rcases Nat.lt_or_ge c b with hlt | hge
  · have ha'c := (hI.ref_ok hj).2.2.1
    have := hI.disjoint i j g a b a' c hi hj hac (by omega)
    subst this
    obtain ⟨_, _, rfl⟩ := hi.inj hj
    omega
  · exact hge

theorem pathVarsT_cons (s : TState) (i : Nat) (p : List Nat) :
    pathVarsT s (i :: p) = nodeVarT s i ++ pathVarsT s p := by
  simp [pathVarsT]

/-! ### walking the reference nodes -/

/-- from every reference node there is a maximal path that takes no record: the rest of the
frame's reference chain -/
theorem ref_walk_nil {t : List Char} {s : TState} (hI : Inv t s) :
    ∀ (n i g a b : Nat), t.length - b ≤ n → IsRef s i g a b →
      ∃ p, TPath s i p ∧ pathVarsT s p = [] := by
  intro n
  induction n with
  | zero =>
    intro i g a b hn hi
    have hb : ¬ b < t.length := by omega
    refine ⟨[i], TPath.leaf ?_, by simp [pathVarsT, nodeVarT_ref hi]⟩
    apply List.eq_nil_iff_forall_not_mem.mpr
    intro e he
    obtain ⟨h1, h2⟩ := mem_outEdges.mp he
    exact hb (hI.ref_end_lt_of_outEdge hi h1 h2)
  | succ n ih =>
    intro i g a b hn hi
    rcases Nat.lt_or_ge b t.length with hb | hb
    · obtain ⟨j, c, hj⟩ := hI.next_ref hi hb
      have hbc := (hI.ref_ok hj).2.2.1
      obtain ⟨p, hp, hv⟩ := ih j g b c (by omega) hj
      refine ⟨i :: p, TPath.step ⟨i, j, .reference⟩ (hI.refLinked _ _ _ _ _ _ hi hj) rfl hp, ?_⟩
      rw [pathVarsT_cons, nodeVarT_ref hi, hv]; rfl
    · refine ⟨[i], TPath.leaf ?_, by simp [pathVarsT, nodeVarT_ref hi]⟩
      apply List.eq_nil_iff_forall_not_mem.mpr
      intro e he
      obtain ⟨h1, h2⟩ := mem_outEdges.mp he
      have := hI.ref_end_lt_of_outEdge hi h1 h2
      omega

/-- from a reference node of frame `g` that ends at or before `v.start`, walk the reference
chain to the node ending at `v.start` and step into the variant node `k` of `v` -/
theorem walk_to_var {t : List Char} {s : TState} (hI : Inv t s) (hL : VarLinked t s) {k g : Nat}
    {v : Rec} (hk : IsVar s k g v) {q : List Nat} (hq : TPath s k q) :
    ∀ (n i a b : Nat), v.start - b ≤ n → IsRef s i g a b → b ≤ v.start →
      ∃ p, TPath s i p ∧ pathVarsT s p = pathVarsT s q := by
  obtain ⟨j, a', hj, hedge⟩ := var_inEdge hI hL hk
  obtain ⟨_, _, hss, hsL⟩ := hI.var_ok hk
  intro n
  induction n with
  | zero =>
    intro i a b hn hi hb
    have hbe : b = v.start := by omega
    subst hbe
    have hab := (hI.ref_ok hi).2.2.1
    have ha'b := (hI.ref_ok hj).2.2.1
    have : i = j := hI.disjoint i j g a _ a' _ hi hj hab ha'b
    subst this
    refine ⟨i :: q, TPath.step ⟨i, k, .variantStart⟩ hedge rfl hq, ?_⟩
    rw [pathVarsT_cons, nodeVarT_ref hi]; rfl
  | succ n ih =>
    intro i a b hn hi hb
    rcases Nat.lt_or_ge b v.start with hlt | hge
    · obtain ⟨m, c, hm⟩ := hI.next_ref hi (by omega)
      have hbc := (hI.ref_ok hm).2.2.1
      have hc : c ≤ v.start := hI.ref_end_le hm hj hlt
      obtain ⟨p, hp, hv⟩ := ih m b c (by omega) hm hc
      refine ⟨i :: p, TPath.step ⟨i, m, .reference⟩ (hI.refLinked _ _ _ _ _ _ hi hm) rfl hp, ?_⟩
      rw [pathVarsT_cons, nodeVarT_ref hi, hv]; rfl
    · have hbe : b = v.start := by omega
      subst hbe
      have hab := (hI.ref_ok hi).2.2.1
      have ha'b := (hI.ref_ok hj).2.2.1
      have : i = j := hI.disjoint i j g a _ a' _ hi hj hab ha'b
      subst this
      refine ⟨i :: q, TPath.step ⟨i, k, .variantStart⟩ hedge rfl hq, ?_⟩
      rw [pathVarsT_cons, nodeVarT_ref hi]; rfl

/-! ### completeness -/

/-- from the variant node `k` of `r` there is a maximal path that takes `r` and nothing else -/
theorem var_walk_single {t : List Char} {s : TState} (hI : Inv t s) (hL : VarLinked t s) {k g : Nat}
    {r : Rec} (hk : IsVar s k g r) : ∃ q, TPath s k q ∧ pathVarsT s q = [r.toVar] := by
  rcases Nat.lt_or_ge r.stop t.length with hlt | hge
  · obtain ⟨e, he, hsrc, _⟩ := (hL k g r hk (by simp)).2 hlt
    obtain ⟨_, g', d, hr⟩ := hI.var_outEdge hk he hsrc
    obtain ⟨p, hp, hv⟩ := ref_walk_nil hI _ _ _ _ _ (Nat.le_refl _) hr
    refine ⟨k :: p, TPath.step e he hsrc hp, ?_⟩
    rw [pathVarsT_cons, nodeVarT_var hk, hv]; rfl
  · exact ⟨[k], TPath.leaf (hI.var_no_outEdge hk hge), by simp [pathVarsT, nodeVarT_var hk]⟩

/-- **completeness under the invariant**: records `h` that are strictly separated (in ascending
order) and attached along the frames from frame `g` on have, from every reference node of frame
`g` that starts before the first record, a maximal path taking exactly `h` -/
theorem tpath_complete {t : List Char} {s : TState} (hI : Inv t s) (hL : VarLinked t s) :
    ∀ (h : List Var) (g i a b : Nat), attached s g h = true → separated h = true →
      IsRef s i g a b → (∀ v ∈ h.head?, a < v.start) →
      ∃ p, TPath s i p ∧ pathVarsT s p = h := by
  intro h
  induction h with
  | nil =>
    intro g i a b _ _ hi _
    exact ref_walk_nil hI _ _ _ _ _ (Nat.le_refl _) hi
  | cons v rest ih =>
    intro g i a b hatt hsep hi hfirst
    obtain ⟨hcar, hrest⟩ := attached_cons.mp hatt
    have hav : a < v.start := hfirst v (by simp)
    -- a path from a variant node of `v` in frame `g` that takes `v :: rest`
    have key : ∃ k r q, IsVar s k g r ∧ r.toVar = v ∧ TPath s k q ∧ pathVarsT s q = v :: rest := by
      rcases hrest with rfl | ⟨g', hg', hatt'⟩
      · obtain ⟨k, r, hk, hr⟩ := carries_iff.mp hcar
        obtain ⟨q, hq, hv⟩ := var_walk_single hI hL hk
        exact ⟨k, r, q, hk, hr, hq, hr ▸ hv⟩
      · obtain ⟨e, he, ⟨r, hk, hr⟩, hfr⟩ := mem_bridgeFrames.mp hg'
        obtain ⟨_, g'', d, hd⟩ := hI.var_outEdge hk he rfl
        have : g'' = g' := by rw [← hfr, nodeFrame_isRef hd]
        subst this
        cases rest with
        | nil =>
          obtain ⟨q, hq, hv⟩ := var_walk_single hI hL hk
          exact ⟨_, r, q, hk, hr, hq, hr ▸ hv⟩
        | cons w rest' =>
          have hsep' : v.stop < w.start ∧ separated (w :: rest') = true := by
            simpa [separated] using hsep
          obtain ⟨p, hp, hv⟩ := ih g'' e.dst r.stop d hatt' hsep'.2 hd (by
            intro x hx
            simp only [List.head?_cons, Option.mem_def, Option.some.injEq] at hx
            subst hx
            have : r.stop = v.stop := by rw [← hr]; rfl
            omega)
          refine ⟨_, r, e.src :: p, hk, hr, TPath.step e he rfl hp, ?_⟩
          rw [pathVarsT_cons, nodeVarT_var hk, hv, hr]; rfl
    obtain ⟨k, r, q, hk, hr, hq, hqv⟩ := key
    have hst : r.start = v.start := by rw [← hr]; rfl
    obtain ⟨j, a', hj, _⟩ := var_inEdge hI hL hk
    have hb : b ≤ r.start := hI.ref_end_le hi hj (by omega)
    obtain ⟨p, hp, hv⟩ := walk_to_var hI hL hk hq _ i a b (Nat.le_refl _) hi hb
    exact ⟨p, hp, hv.trans hqv⟩

/-- **the language, completeness half**: from the reference node of frame `f` that starts at `f`,
every strictly separated `h` attached along the frames has a maximal path that takes exactly `h`
and spells `(applyHap t h).drop f` -/
theorem tpath_language_complete {t : List Char} {s : TState} (hI : Inv t s) (hL : VarLinked t s)
    {i f b : Nat} (hi : IsRef s i f f b) {h : List Var} (hatt : attached s f h = true)
    (hsep : separated h = true) :
    ∃ p, TPath s i p ∧ pathVarsT s p = h ∧ pathSeqT s p = (applyHap t h).drop f := by
  have hfirst : ∀ v ∈ h.head?, f < v.start := by
    intro v hv
    cases h with
    | nil => simp at hv
    | cons w rest =>
      simp only [List.head?_cons, Option.mem_def, Option.some.injEq] at hv
      subst hv
      obtain ⟨k, r, hk, hr⟩ := carries_iff.mp (attached_cons.mp hatt).1
      have := (hI.var_ok hk).2.1
      have hst : r.start = w.start := by rw [← hr]; rfl
      omega
  obtain ⟨p, hp, hv⟩ := tpath_complete hI hL h f i f b hatt hsep hi hfirst
  refine ⟨p, hp, hv, ?_⟩
  have := (tpath_language_sound hI hL hi hp).2.2
  rw [hv] at this
  exact this

/-! ### … and `attached` is necessary -/

/-- the records of every maximal path are attached along the frames the path runs through -/
theorem tpath_attached {t : List Char} {s : TState} (hI : Inv t s)
    {i : Nat} {p : List Nat} (hp : TPath s i p) :
    (∀ g a b, IsRef s i g a b → attached s g (pathVarsT s p) = true) ∧
    (∀ g r, IsVar s i g r → attached s g (pathVarsT s p) = true) := by
  induction hp with
  | @leaf i hout =>
    constructor
    · intro g a b hi
      simp [pathVarsT, nodeVarT_ref hi, attached]
    · intro g r hi
      simp only [pathVarsT, List.flatMap_cons, List.flatMap_nil, nodeVarT_var hi, List.append_nil]
      exact attached_cons.mpr ⟨carries_iff.mpr ⟨i, r, hi, rfl⟩, Or.inl rfl⟩
  | @step i p e he hsrc _ ih =>
    have hok := hI.edgeOk e he
    constructor
    · intro g a b hi
      rw [pathVarsT_cons, nodeVarT_ref hi, List.nil_append]
      obtain ⟨src, dst, ty⟩ := e
      simp only at hsrc ih; subst hsrc
      cases ty <;> simp only [EdgeOk] at hok
      · rcases hok with ⟨f', x, y, z, h1, h2⟩ | ⟨_, _, _, h1, _⟩ | ⟨_, _, h1, _⟩
        · obtain ⟨rfl, _, _⟩ := hi.inj h1
          exact ih.1 _ _ _ h2
        · exact (hi.not_null h1).elim
        · exact (hi.not_null h1).elim
      · obtain ⟨f', x, y, v, h1, h2, _⟩ := hok
        obtain ⟨rfl, _, _⟩ := hi.inj h1
        exact ih.2 _ _ h2
      · obtain ⟨_, _, _, _, _, h1, _⟩ := hok
        exact (hi.not_var h1).elim
    · intro g r hi
      rw [pathVarsT_cons, nodeVarT_var hi]
      subst hsrc
      obtain ⟨_, g', d, hd⟩ := hI.var_outEdge hi he rfl
      refine attached_cons.mpr ⟨carries_iff.mpr ⟨_, r, hi, rfl⟩, Or.inr ⟨g', ?_, ih.1 _ _ _ hd⟩⟩
      exact mem_bridgeFrames.mpr ⟨e, he, ⟨r, hi, rfl⟩, nodeFrame_isRef hd⟩

/-- **the path language of a frame, as a set**: under the invariant, `(w, h)` is the (sequence,
records) pair of a maximal path from the reference node of frame `f` starting at `f` exactly when
`h` is strictly separated, attached along the frames from `f` on, and `w = (applyHap t h).drop f` -/
theorem tpath_language_eq {t : List Char} {s : TState} (hI : Inv t s) (hL : VarLinked t s)
    {i f b : Nat} (hi : IsRef s i f f b) (w : List Char) (h : List Var) :
    (∃ p, TPath s i p ∧ pathSeqT s p = w ∧ pathVarsT s p = h) ↔
      (attached s f h = true ∧ separated h = true ∧ w = (applyHap t h).drop f) := by
  constructor
  · rintro ⟨p, hp, rfl, rfl⟩
    obtain ⟨_, h2, h3⟩ := tpath_language_sound hI hL hi hp
    exact ⟨(tpath_attached hI hp).1 _ _ _ hi, h2, h3⟩
  · rintro ⟨hatt, hsep, rfl⟩
    obtain ⟨p, hp, hv, hs⟩ := tpath_language_complete hI hL hi hatt hsep
    exact ⟨p, hp, hs, hv⟩

/-! ### all three frames carry every record -/

theorem allFrames_iff {s : TState} :
    allFrames s = true ↔ ∀ k f r, IsVar s k f r → ∀ g, g < 3 → carries s g r.toVar = true := by
  simp only [allFrames, List.all_eq_true]
  constructor
  · intro h k f r ⟨sq, hk⟩ g hg
    have := h _ (List.mem_of_getElem? hk)
    simp only [List.all_eq_true, List.mem_cons, List.not_mem_nil, or_false] at this
    have hg' : g = 0 ∨ g = 1 ∨ g = 2 := by omega
    exact this g hg'
  · intro h n hn
    obtain ⟨k, hk⟩ := List.getElem?_of_mem hn
    obtain ⟨rf, kind, sq⟩ := n
    cases kind with
    | root => rfl
    | ref a b => rfl
    | var r =>
      simp only [List.all_eq_true, List.mem_cons, List.not_mem_nil, or_false]
      intro g hg
      exact h k rf r ⟨sq, hk⟩ g (by omega)

theorem mem_varPool_iff {s : TState} {v : Var} :
    v ∈ varPool s ↔ ∃ k f r, IsVar s k f r ∧ r.toVar = v := by
  simp only [varPool, List.mem_filterMap]
  constructor
  · rintro ⟨n, hn, hv⟩
    obtain ⟨k, hk⟩ := List.getElem?_of_mem hn
    obtain ⟨rf, kind, sq⟩ := n
    cases kind with
    | root => simp at hv
    | ref a b => simp at hv
    | var r =>
      simp only [Option.some.injEq] at hv
      exact ⟨k, rf, r, ⟨sq, hk⟩, hv⟩
  · rintro ⟨k, f, r, ⟨sq, hk⟩, hv⟩
    exact ⟨_, List.mem_of_getElem? hk, by simpa using hv⟩

/-- when all three frames carry every record, every strictly separated list of records of the
graph is attached from every frame -/
theorem attached_of_allFrames {t : List Char} {s : TState} (hI : Inv t s) (hL : VarLinked t s)
    (hall : allFrames s = true) :
    ∀ (h : List Var) (g : Nat), g < 3 → (∀ v ∈ h, v ∈ varPool s) → separated h = true →
      attached s g h = true := by
  intro h
  induction h with
  | nil => intros; rfl
  | cons v rest ih =>
    intro g hg hpool hsep
    obtain ⟨k0, f0, r0, hk0, hr0⟩ := mem_varPool_iff.mp (hpool v (by simp))
    have hcar : carries s g v = true := hr0 ▸ allFrames_iff.mp hall k0 f0 r0 hk0 g hg
    refine attached_cons.mpr ⟨hcar, ?_⟩
    cases rest with
    | nil => exact Or.inl rfl
    | cons w rest' =>
      right
      have hsep' : v.stop < w.start ∧ separated (w :: rest') = true := by
        simpa [separated] using hsep
      obtain ⟨k, r, hk, hr⟩ := carries_iff.mp hcar
      obtain ⟨k1, f1, r1, hk1, hr1⟩ := mem_varPool_iff.mp (hpool w (by simp))
      have hw := (hI.var_ok hk1).2.2
      have hstop : r.stop < t.length := by
        have e1 : r.stop = v.stop := by rw [← hr]; rfl
        have e2 : r1.start = w.start := by rw [← hr1]; rfl
        omega
      obtain ⟨e, he, hsrc, _⟩ := (hL k g r hk (by simp)).2 hstop
      obtain ⟨_, g', d, hd⟩ := hI.var_outEdge hk he hsrc
      refine ⟨g', mem_bridgeFrames.mpr ⟨e, he, ⟨r, hsrc ▸ hk, hr⟩, nodeFrame_isRef hd⟩, ?_⟩
      exact ih g' (hI.ref_ok hd).1 (fun x hx => hpool x (by simp [hx])) hsep'.2

/-! ### the record lists of the paths, as an executable list -/

theorem varRecs_eq_varPool (s : TState) : varRecs s = varPool s := rfl

/-- `attachedSubs s f` lists exactly the record lists of the maximal paths of frame `f` -/
theorem mem_attachedSubs {t : List Char} {s : TState} (hI : Inv t s) (hL : VarLinked t s)
    {i f b : Nat} (hi : IsRef s i f f b) (h : List Var) :
    h ∈ attachedSubs s f ↔ ∃ p, TPath s i p ∧ pathVarsT s p = h := by
  simp only [attachedSubs, List.mem_filter, List.mem_map, Bool.and_eq_true]
  constructor
  · rintro ⟨_, hsep, hatt⟩
    obtain ⟨p, hp, hv, _⟩ := tpath_language_complete hI hL hi hatt hsep
    exact ⟨p, hp, hv⟩
  · rintro ⟨p, hp, rfl⟩
    obtain ⟨h1, h2, _⟩ := tpath_language_sound hI hL hi hp
    refine ⟨?_, h2, (tpath_attached hI hp).1 _ _ _ hi⟩
    have hpos : ∀ v ∈ pathVarsT s p, v.start ≤ v.stop := by
      intro v hv
      obtain ⟨k, m, r, hk, hr⟩ := mem_varPool_iff.mp (h1 v hv)
      have := (hI.var_ok hk).2.2.1
      have e1 : r.start = v.start := by rw [← hr]; rfl
      have e2 : r.stop = v.stop := by rw [← hr]; rfl
      omega
    obtain ⟨s', hs', he⟩ := Hap.exists_sublist_sort_eq (pool := (varRecs s).eraseDups) h2 hpos
      (fun v hv => List.mem_eraseDups.mpr (h1 v hv))
    exact ⟨s', (mem_sublists _ _).mpr hs', he.symm⟩

end MoPepGen.Tvg
