-- Root of the `MoPepGen` library: models, drivers, lemmas and property theorems.
import MoPepGen.Model.Regex
import MoPepGen.Model.Digest
import MoPepGen.Generated.Expasy
import MoPepGen.Generated.Weights
import MoPepGen.Driver.C10
import MoPepGen.Model.Pipeline
import MoPepGen.Driver.Pipe
import MoPepGen.Lemmas.Regex
import MoPepGen.Props.C10
import MoPepGen.Props.C04
import MoPepGen.Props.C06
import MoPepGen.Props.C07
import MoPepGen.Model.IndexDir
import MoPepGen.Driver.C12
import MoPepGen.Lemmas.IndexDir
import MoPepGen.Props.C12
