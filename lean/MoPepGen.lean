-- Root of the `MoPepGen` library: models, drivers, lemmas and property theorems.
import MoPepGen.Model.Regex
import MoPepGen.Model.Digest
import MoPepGen.Generated.Expasy
import MoPepGen.Generated.Weights
import MoPepGen.Driver.C10
